//! AST -> source text with a seeded layout, and the ground-truth line of every row.
//!
//! The printer is the oracle for line numbers (C19), for "layout does not matter" (C20) and for the
//! precedence table of C08 (minimal parentheses are placed according to the property's table, not the crate's).

use crate::model::*;
use rand::rngs::StdRng;
use rand::{Rng, SeedableRng};
use std::collections::HashMap;

#[derive(Debug, Clone, Copy, PartialEq, Eq)]
pub enum Parens {
    Minimal,
    Full,
    Random,
}

#[derive(Debug, Clone)]
pub struct Layout {
    pub seed: u64,
    /// blank (possibly whitespace-only) lines before the header
    pub pre_blank: usize,
    pub crlf: bool,
    /// probability of a blank line / comment-only line before each statement line
    pub blank_p: f64,
    pub comment_line_p: f64,
    pub trailing_comment_p: f64,
    pub indent: bool,
    pub mixed_radix: bool,
    pub parens: Parens,
    /// 0: single spaces, 1: random runs of spaces and tabs
    pub wide_sep: bool,
    /// no blanks around operators and parentheses
    pub tight: bool,
    pub final_newline: bool,
    pub lower_cxz: bool,
}

impl Layout {
    pub fn canonical() -> Layout {
        Layout {
            seed: 0,
            pre_blank: 0,
            crlf: false,
            blank_p: 0.0,
            comment_line_p: 0.0,
            trailing_comment_p: 0.0,
            indent: false,
            mixed_radix: false,
            parens: Parens::Minimal,
            wide_sep: false,
            tight: false,
            final_newline: true,
            lower_cxz: false,
        }
    }
    pub fn random(seed: u64) -> Layout {
        let mut r = StdRng::seed_from_u64(seed ^ 0x5eed_1a70);
        Layout {
            seed,
            pre_blank: if r.gen_bool(0.5) { r.gen_range(0..4) } else { 0 },
            crlf: r.gen_bool(0.3),
            blank_p: if r.gen_bool(0.6) { 0.25 } else { 0.0 },
            comment_line_p: if r.gen_bool(0.6) { 0.2 } else { 0.0 },
            trailing_comment_p: if r.gen_bool(0.6) { 0.3 } else { 0.0 },
            indent: r.gen_bool(0.5),
            mixed_radix: r.gen_bool(0.6),
            parens: match r.gen_range(0..3) {
                0 => Parens::Minimal,
                1 => Parens::Full,
                _ => Parens::Random,
            },
            wide_sep: r.gen_bool(0.5),
            tight: r.gen_bool(0.3),
            final_newline: r.gen_bool(0.7),
            lower_cxz: false,
        }
    }
}

#[derive(Debug, Clone, Copy, PartialEq, Eq)]
enum Tk {
    Word,  // identifiers, keywords, numbers: need a blank between two of them
    Punct, // operators, parentheses, comma, semicolon
}

pub struct Printed {
    pub text: String,
    pub line_of: HashMap<usize, usize>,
}

/// precedence level of a binary operator per property C08 (1 binds tightest)
pub fn prec(op: &str) -> u8 {
    match op {
        "*" | "/" | "%" => 1,
        "+" | "-" => 2,
        "<<" | ">>" => 3,
        "&" => 4,
        "^" => 5,
        "|" => 6,
        "<" | ">" | "<=" | ">=" => 7,
        "=" | "!=" => 8,
        _ => panic!("unknown operator {op}"),
    }
}

struct P<'a> {
    lay: &'a Layout,
    rng: StdRng,
    toks: Vec<(String, Tk)>,
}

impl<'a> P<'a> {
    fn w(&mut self, s: &str) {
        self.toks.push((s.to_string(), Tk::Word));
    }
    fn p(&mut self, s: &str) {
        self.toks.push((s.to_string(), Tk::Punct));
    }
    fn number(&mut self, n: i64) {
        assert!(n >= 0);
        let s = if self.lay.mixed_radix {
            // zero padding (also past 16 hex / 64 binary / 22 octal digits) and mixed-case hex digits do not change the value
            let pad = if self.rng.gen_bool(0.25) { "0".repeat(self.rng.gen_range(1..24)) } else { String::new() };
            match self.rng.gen_range(0..7) {
                0 => format!("0x{pad}{:x}", n),
                1 => format!("0X{pad}{:X}", n),
                2 => format!("0b{pad}{:b}", n),
                3 => format!("0B{pad}{:b}", n),
                4 => format!("0{pad}{:o}", n),
                5 => {
                    let h: String = format!("{:x}", n).chars().map(|c| if self.rng.gen_bool(0.5) { c.to_ascii_uppercase() } else { c }).collect();
                    format!("0x{pad}{h}")
                }
                _ => format!("{}", n),
            }
        } else {
            format!("{}", n)
        };
        self.w(&s);
    }
    fn expr(&mut self, e: &Expr) {
        match e {
            Expr::Num(n) => {
                if *n >= 0 {
                    self.number(*n)
                } else if *n == i64::MIN {
                    self.p("(");
                    self.p("-");
                    self.number(i64::MAX);
                    self.p("-");
                    self.number(1);
                    self.p(")");
                } else {
                    self.p("(");
                    self.p("-");
                    self.number(-*n);
                    self.p(")");
                }
            }
            Expr::Id(s) => self.w(s),
            Expr::Un(op, inner) => {
                self.p(op);
                let needs = matches!(**inner, Expr::Bin(..));
                let extra = self.extra_parens();
                if needs || extra {
                    self.p("(");
                    self.expr(inner);
                    self.p(")");
                } else {
                    self.expr(inner);
                }
            }
            Expr::Bin(op, l, r) => {
                let me = prec(op);
                let lp = match &**l {
                    Expr::Bin(lop, ..) => prec(lop) > me,
                    _ => false,
                };
                let rp = match &**r {
                    Expr::Bin(rop, ..) => prec(rop) >= me,
                    _ => false,
                };
                let (lx, rx) = (self.extra_parens(), self.extra_parens());
                if lp || (lx && matches!(**l, Expr::Bin(..) | Expr::Un(..))) || (lx && self.lay.parens == Parens::Random) {
                    self.p("(");
                    self.expr(l);
                    self.p(")");
                } else {
                    self.expr(l);
                }
                self.p(op);
                if rp || (rx && matches!(**r, Expr::Bin(..) | Expr::Un(..))) || (rx && self.lay.parens == Parens::Random) {
                    self.p("(");
                    self.expr(r);
                    self.p(")");
                } else {
                    self.expr(r);
                }
            }
            Expr::Fn(name, args) => {
                self.w(name);
                self.p("(");
                for (i, a) in args.iter().enumerate() {
                    if i > 0 {
                        self.p(",");
                    }
                    self.expr(a);
                }
                self.p(")");
            }
        }
    }
    fn extra_parens(&mut self) -> bool {
        match self.lay.parens {
            Parens::Minimal => false,
            Parens::Full => true,
            Parens::Random => self.rng.gen_bool(0.3),
        }
    }
    fn entries(&mut self, entries: &[Entry]) {
        for en in entries {
            // entries are always separated by blanks: mark the boundary with an empty Word pair
            self.toks.push((String::new(), Tk::Word));
            match en {
                Entry::Num(n) => {
                    if *n >= 0 {
                        self.number(*n)
                    } else {
                        self.p("(");
                        self.expr(&Expr::Num(*n));
                        self.p(")");
                    }
                }
                Entry::Expr(e) => {
                    self.p("(");
                    self.expr(e);
                    self.p(")");
                }
                Entry::Bits(n, e) => {
                    self.w("bits");
                    self.p("(");
                    self.number(*n as i64);
                    self.p(",");
                    self.expr(e);
                    self.p(")");
                }
                Entry::X => self.w(if self.lay.lower_cxz { "x" } else { "X" }),
                Entry::Z => self.w(if self.lay.lower_cxz { "z" } else { "Z" }),
                Entry::C => self.w(if self.lay.lower_cxz { "c" } else { "C" }),
            }
        }
    }
    fn sep(&mut self, mandatory: bool) -> String {
        if self.lay.wide_sep {
            let n = if mandatory { self.rng.gen_range(1..4) } else { self.rng.gen_range(0..3) };
            (0..n).map(|_| if self.rng.gen_bool(0.3) { '\t' } else { ' ' }).collect()
        } else if mandatory {
            " ".to_string()
        } else if self.lay.tight {
            String::new()
        } else {
            " ".to_string()
        }
    }
    /// join the collected tokens into one line and clear them
    fn flush(&mut self) -> String {
        let toks = std::mem::take(&mut self.toks);
        let mut out = String::new();
        let mut prev: Option<Tk> = None;
        let mut boundary = false;
        for (text, kind) in toks {
            if text.is_empty() {
                boundary = true;
                continue;
            }
            if let Some(pk) = prev {
                let mandatory = boundary || (pk == Tk::Word && kind == Tk::Word);
                let s = if mandatory {
                    self.sep(true)
                } else if self.lay.wide_sep {
                    self.sep(false)
                } else if self.lay.tight {
                    String::new()
                } else if text == ")" || text == "," || text == ";" || out.ends_with('(') || (pk == Tk::Word && text == "(") {
                    String::new()
                } else {
                    " ".to_string()
                };
                out.push_str(&s);
            }
            boundary = false;
            out.push_str(&text);
            prev = Some(kind);
        }
        out
    }
}

pub fn print_expr(e: &Expr, lay: &Layout) -> String {
    let mut p = P { lay, rng: StdRng::seed_from_u64(lay.seed ^ 0xe4b2), toks: vec![] };
    p.expr(e);
    p.flush()
}

pub fn print_test(header: &[String], prog: &[Stmt], lay: &Layout) -> Printed {
    let mut p = P { lay, rng: StdRng::seed_from_u64(lay.seed), toks: vec![] };
    let nl = if lay.crlf { "\r\n" } else { "\n" };
    let mut lines: Vec<String> = vec![];
    let mut line_of = HashMap::new();
    for _ in 0..lay.pre_blank {
        let ws = if p.rng.gen_bool(0.3) { " \t".to_string() } else { String::new() };
        lines.push(ws);
    }
    let mut h = String::new();
    if lay.indent && p.rng.gen_bool(0.5) {
        h.push_str("  ");
    }
    for (i, name) in header.iter().enumerate() {
        if i > 0 {
            h.push_str(&p.sep(true));
        }
        h.push_str(name);
    }
    if lay.wide_sep && p.rng.gen_bool(0.3) {
        h.push_str(" \t");
    }
    lines.push(h);
    fn block(p: &mut P<'_>, stmts: &[Stmt], depth: usize, lines: &mut Vec<String>, line_of: &mut HashMap<usize, usize>) {
        for s in stmts {
            // optional blank / comment-only lines
            while p.rng.gen_bool(p.lay.blank_p.min(0.9)) {
                lines.push(if p.rng.gen_bool(0.3) { "  ".into() } else { String::new() });
            }
            while p.rng.gen_bool(p.lay.comment_line_p.min(0.9)) {
                lines.push(format!("{}# comment {}{}", if p.rng.gen_bool(0.5) { " " } else { "" }, p.rng.gen_range(0..100), ["", "", "", " ü", " 本"][p.rng.gen_range(0..5)]));
            }
            let ind = if p.lay.indent { "  ".repeat(depth) } else { String::new() };
            let tc = |p: &mut P<'_>| -> String {
                if p.rng.gen_bool(p.lay.trailing_comment_p.min(0.9)) {
                    // (comments may hold anything, multi-byte characters included - also as the very last character of the text)
                    format!("{}# c{} end loop 1 X ({}", if p.rng.gen_bool(0.5) { " " } else { "" }, p.rng.gen_range(0..10), ["", "", " é", " 日本", " \u{1F600}", "ß"][p.rng.gen_range(0..6)])
                } else {
                    String::new()
                }
            };
            match s {
                Stmt::Let { name, e } => {
                    p.w("let");
                    p.w(name);
                    p.p("=");
                    p.expr(e);
                    p.p(";");
                    let l = p.flush();
                    let c = tc(p);
                    lines.push(format!("{ind}{l}{c}"));
                }
                Stmt::Declare { name, e } => {
                    p.w("declare");
                    p.w(name);
                    p.p("=");
                    p.expr(e);
                    p.p(";");
                    let l = p.flush();
                    let c = tc(p);
                    lines.push(format!("{ind}{l}{c}"));
                }
                Stmt::Row { id, entries } => {
                    p.entries(entries);
                    let l = p.flush();
                    let c = tc(p);
                    lines.push(format!("{ind}{l}{c}"));
                    line_of.insert(*id, lines.len());
                }
                Stmt::Repeat { max, id, entries } => {
                    p.w("repeat");
                    p.p("(");
                    p.expr(max);
                    p.p(")");
                    p.entries(entries);
                    let l = p.flush();
                    let c = tc(p);
                    lines.push(format!("{ind}{l}{c}"));
                    line_of.insert(*id, lines.len());
                }
                Stmt::Loop { var, max, body } => {
                    p.w("loop");
                    p.p("(");
                    p.w(var);
                    p.p(",");
                    p.expr(max);
                    p.p(")");
                    let l = p.flush();
                    let c = tc(p);
                    lines.push(format!("{ind}{l}{c}"));
                    block(p, body, depth + 1, lines, line_of);
                    p.w("end");
                    p.w("loop");
                    let l = p.flush();
                    let c = tc(p);
                    lines.push(format!("{ind}{l}{c}"));
                }
                Stmt::While { cond, body } => {
                    p.w("while");
                    p.p("(");
                    p.expr(cond);
                    p.p(")");
                    let l = p.flush();
                    let c = tc(p);
                    lines.push(format!("{ind}{l}{c}"));
                    block(p, body, depth + 1, lines, line_of);
                    p.w("end");
                    p.w("while");
                    let l = p.flush();
                    let c = tc(p);
                    lines.push(format!("{ind}{l}{c}"));
                }
                Stmt::Reset => {
                    p.w("resetRandom");
                    p.p(";");
                    let l = p.flush();
                    let c = tc(p);
                    lines.push(format!("{ind}{l}{c}"));
                }
            }
        }
    }
    block(&mut p, prog, 0, &mut lines, &mut line_of);
    // trailing blank / comment lines
    while p.rng.gen_bool(lay.blank_p.min(0.9)) {
        lines.push(String::new());
    }
    let mut text = lines.join(nl);
    if lay.final_newline {
        text.push_str(nl);
    }
    Printed { text, line_of }
}
