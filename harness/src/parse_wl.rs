//! Workloads and recording for lexing / parsing (C09, C12, C19, C20): one trace line per `from_str` call.

use crate::gen::*;
use crate::model::*;
use crate::printer::*;
use crate::run::guarded;
use digital_test_runner::{verif, ParsedTestCase};
use rand::rngs::StdRng;
use rand::seq::SliceRandom;
use rand::{Rng, SeedableRng};
use serde_json::{json, Value as J};
use std::str::FromStr;

fn dump_to_spec(d: &J) -> J {
    json!({
        "stmts": dump_stmts_to_spec(&d["stmts"]),
        "signals": d["signals"],
        "virtuals": d["virtuals"].as_array().unwrap().iter().map(|v| json!({"name": v["name"], "e": Expr::from_dump(&v["e"]).to_spec()})).collect::<Vec<_>>(),
        "expected_inputs": d["expected_inputs"],
        "read_outputs": d["read_outputs"],
    })
}

fn empty_dump() -> J {
    json!({"stmts": [], "signals": [], "virtuals": [], "expected_inputs": [], "read_outputs": []})
}

/// Parse `text` with the real crate and record everything the trace specification looks at.
pub fn record(id: usize, prop: &str, text: &str, row_lines: Option<Vec<usize>>, group: usize, note: &str) -> J {
    *crate::WATCH_TEXT.lock().unwrap() = text.to_string();
    let cs: Vec<u32> = text.chars().map(|c| c as u32).collect();
    let toks = guarded(|| verif::tokens(text, true)).unwrap_or(None);
    let (lexed, tokens) = match &toks {
        None => (false, vec![]),
        Some(ts) => (
            true,
            ts.iter().map(|(k, s, e)| json!({"k": k, "s": s, "e": e, "txt": if k == "Ident" || k == "SignalName" { text.get(*s..*e).unwrap_or("") } else { "" }})).collect::<Vec<_>>(),
        ),
    };
    let parsed = guarded(|| ParsedTestCase::from_str(text));
    let mut err_spans: Vec<J> = vec![];
    let mut err_kind = String::new();
    let mut run_panic = String::new();
    let (res, dump, spans_ok, render_ok, msg) = match parsed {
        Err(p) => ("panic", empty_dump(), true, true, p),
        Ok(Ok(p)) => {
            let d: J = serde_json::from_str(&p.verif_dump()).expect("dump is JSON");
            let ds = dump_to_spec(&d);
            // C10: whatever text the parser ACCEPTED (rightly or not) is bound to a signal list made to fit it and run
            // (in a thread of its own that is abandoned after a few seconds: a program that spins is not judged at all)
            run_panic = {
                let (tx, rx) = std::sync::mpsc::channel();
                let (t, d) = (text.to_string(), ds.clone());
                std::thread::spawn(move || {
                    crate::run::QUIET_THREAD.with(|q| q.set(true));
                    let _ = tx.send(run_accepted(&t, &d));
                });
                rx.recv_timeout(std::time::Duration::from_secs(5)).unwrap_or_default()
            };
            let _ = &p;
            ("ok", ds, true, true, String::new())
        }
        Ok(Err(e)) => {
            // C09: every location lies within the source on character boundaries, and the error renders
            let spans_ok = e.at.iter().all(|sp| sp.start <= sp.end && sp.end <= text.len() && text.is_char_boundary(sp.start) && text.is_char_boundary(sp.end));
            let msg = format!("{:?}", e.at);
            // the variant of the (crate-private) error kind, from the Debug text: `ParseError { kind: Variant ...`
            let dbg = format!("{e:?}");
            if let Some(p) = dbg.find("kind: ") {
                err_kind = dbg[p + 6..].chars().take_while(|c| c.is_ascii_alphanumeric()).collect();
            }
            err_spans = e.at.iter().map(|sp| json!([sp.start, sp.end])).collect();
            let src = text.to_string();
            let render_ok = guarded(move || {
                let report = miette::Report::new(e).with_source_code(src);
                let s = format!("{report:?}");
                !s.is_empty()
            })
            .unwrap_or(false);
            ("err", empty_dump(), spans_ok, render_ok, msg)
        }
    };
    json!({
        "ev": "parse", "id": id, "prop": prop, "cs": cs, "lexed": lexed, "tokens": tokens, "res": res, "dump": dump,
        "reparse_ok": true, "has_ref": false, "ref_stmts": [], "err_spans": err_spans, "err_kind": err_kind, "spans_ok": spans_ok, "render_ok": render_ok, "has_truth": row_lines.is_some(), "row_lines": row_lines.unwrap_or_default(),
        "group": group, "note": note, "msg": msg, "text": text, "run_panic": run_panic,
    })
}

/// a driver that answers every call with small numbers for all its outputs (sometimes Z)
struct ConstDrv {
    table: Vec<digital_test_runner::Signal>,
    n: i64,
}
impl digital_test_runner::TestDriver for ConstDrv {
    type Error = crate::driver::DrvErr;
    fn write_input_and_read_output(&mut self, _inputs: &[digital_test_runner::InputEntry<'_>]) -> Result<Vec<digital_test_runner::OutputEntry<'_>>, Self::Error> {
        self.n += 1;
        let n = self.n;
        Ok(self
            .table
            .iter()
            .enumerate()
            .map(|(k, s)| digital_test_runner::OutputEntry { signal: s, value: if (n + k as i64) % 11 == 10 { digital_test_runner::OutputValue::Z } else { digital_test_runner::OutputValue::Value((n + 3 * k as i64) % 5) } })
            .collect())
    }
}

/// Bind an accepted text to a signal list built from the parser's own facts (what it reads must be an output, a clocked
/// column an input, the other columns alternate) and iterate it, every call guarded; returns the panic message, or "".
fn run_accepted(text: &str, dump: &J) -> String {
    use digital_test_runner::Signal;
    // not `guarded`: the hang watchdog must not count these calls
    fn quiet<T>(f: impl FnOnce() -> T) -> Result<T, String> {
        std::panic::catch_unwind(std::panic::AssertUnwindSafe(f)).map_err(|_| crate::run::take_panic())
    }
    let p = match quiet(|| ParsedTestCase::from_str(text)) {
        Ok(Ok(p)) => p,
        _ => return String::new(),
    };
    // every next() must return: only programs that cannot spin are run (no `while`, nesting at most two deep, literals up to
    // 1000 and neither `*` nor `<<`, so that no loop bound can become large) - the properties quantify over terminating programs
    fn bounded(j: &J, depth: usize) -> bool {
        match j {
            J::Array(a) => a.iter().all(|x| bounded(x, depth)),
            J::Object(o) => {
                let k = o.get("k").and_then(|k| k.as_str()).unwrap_or("");
                if k == "while" || (k == "loop" && depth >= 2) {
                    return false;
                }
                if k == "num" {
                    let w = o["v"].as_array().cloned().unwrap_or_default();
                    if w.len() != 4 || w[..3].iter().any(|l| l.as_u64() != Some(0)) || w[3].as_u64().unwrap_or(u64::MAX) > 1000 {
                        return false;
                    }
                }
                if matches!(o.get("op").and_then(|x| x.as_str()), Some("*") | Some("<<")) {
                    return false;
                }
                let d = if k == "loop" { depth + 1 } else { depth };
                o.values().all(|x| bounded(x, d))
            }
            _ => true,
        }
    }
    if !bounded(&dump["stmts"], 0) {
        return String::new();
    }
    let names = |k: &str| -> Vec<String> { dump[k].as_array().map(|a| a.iter().filter_map(|v| v.as_str().map(|s| s.to_string())).collect()).unwrap_or_default() };
    let header = names("signals");
    let reads = names("read_outputs");
    let clocked = names("expected_inputs");
    let virtuals: Vec<String> = dump["virtuals"].as_array().map(|a| a.iter().filter_map(|v| v["name"].as_str().map(|s| s.to_string())).collect()).unwrap_or_default();
    let mut signals: Vec<Signal> = vec![];
    let mut seen: Vec<String> = vec![];
    for n in &reads {
        if !seen.contains(n) && !virtuals.contains(n) {
            seen.push(n.clone());
            signals.push(Signal::output(n.clone(), 8));
        }
    }
    for (k, n) in header.iter().enumerate() {
        if seen.contains(n) || virtuals.contains(n) {
            continue;
        }
        seen.push(n.clone());
        if clocked.contains(n) || k % 2 == 0 {
            signals.push(Signal::input(n.clone(), if clocked.contains(n) { 1 } else { 4 }, 0));
        } else {
            signals.push(Signal::output(n.clone(), 4));
        }
    }
    let table: Vec<Signal> = signals.iter().filter(|s| s.is_output()).cloned().collect();
    let tc = match quiet(move || p.with_signals(signals)) {
        Err(m) => return format!("with_signals: {m}"),
        Ok(Err(_)) => return String::new(),
        Ok(Ok(tc)) => tc,
    };
    let mut drv = ConstDrv { table, n: 0 };
    let mut it = match quiet(|| tc.try_iter(&mut drv)) {
        Err(m) => return format!("try_iter: {m}"),
        Ok(Err(_)) => return String::new(),
        Ok(Ok(it)) => it,
    };
    let mut errs = 0;
    for _ in 0..40 {
        match quiet(|| it.next()) {
            Err(m) => return format!("next: {m}"),
            Ok(None) => break,
            Ok(Some(Err(_))) => {
                errs += 1;
                if errs >= 3 {
                    break;
                }
            }
            Ok(Some(Ok(_))) => {}
        }
    }
    String::new()
}

fn row_lines_of(prog: &[Stmt], printed: &Printed, out: &mut Vec<usize>) {
    for s in prog {
        match s {
            Stmt::Row { id, .. } | Stmt::Repeat { id, .. } => out.push(printed.line_of[id]),
            Stmt::Loop { body, .. } | Stmt::While { body, .. } => row_lines_of(body, printed, out),
            _ => {}
        }
    }
}

fn valid_program(seed: u64) -> (Vec<String>, Vec<Stmt>) {
    let mut g = Gen::new(seed, Knobs { max_virtuals: 2, allow_random: true, p_c: 0.05, p_x: 0.08, bidir: true, big_consts: seed % 4 == 0, max_stmts: 14, twin_literals: seed % 2 == 0, ..Knobs::control_flow() });
    let plan = g.plan();
    let prog = g.program(&plan);
    (plan.header, prog)
}

const NASTY: &[char] = &[
    '$', '@', '"', '\'', '\\', '?', '.', ':', '[', ']', '{', '}', '`', '\0', '\u{7f}', 'é', 'ß', '日', '本', '\u{1F600}', '\u{0663}', '\u{FF11}', '\u{a0}', '\u{2028}', '\t', '\r', '\n',
    ' ', '#', '(', ')', ',', ';', '=', '<', '>', '!', '~', '-', '+', '*', '/', '%', '&', '|', '^', '0', '1', '9', 'x', 'X', 'b', 'c', 'C', 'z', 'a', 'e', 'n', 'd', '_',
];

/// characters that one definition of white space or another includes (ASCII, Latin-1, Unicode Zs / Zl / Zp, BOM, zero width)
const WSLIKE: &[char] = &[
    ' ', '\t', '\r', '\x0c', '\x0b', '\u{85}', '\u{a0}', '\u{1680}', '\u{2000}', '\u{2003}', '\u{200a}', '\u{200b}', '\u{2028}', '\u{2029}', '\u{202f}', '\u{205f}', '\u{3000}', '\u{feff}', '\x1c', '\x1f',
];

const VOCAB: &[&str] = &[
    "let", "loop", "end", "while", "repeat", "bits", "declare", "resetRandom", "program", "init", "memory", "def", "call", "a", "b", "X", "C", "Z", "x", "c", "random", "ite", "signExt", "foo",
    "0", "1", "7", "08", "0x1F", "0xg", "0b101", "0b2", "017", "9223372036854775807", "9223372036854775808", "18446744073709551616", "65", "(", ")", ",", ";", "=", "!=", "<", ">", "<=", ">=", "<<",
    ">>", "+", "-", "*", "/", "%", "!", "~", "^", "&", "|", "\n", "\n", "\n", "$", "# c\n", "é",
];

fn char_edit(text: &str, rng: &mut StdRng) -> String {
    let mut chars: Vec<char> = text.chars().collect();
    let n = rng.gen_range(1..4);
    for _ in 0..n {
        let pos = if chars.is_empty() { 0 } else { rng.gen_range(0..=chars.len()) };
        match rng.gen_range(0..4) {
            0 if pos < chars.len() => {
                chars.remove(pos);
            }
            1 => chars.insert(pos.min(chars.len()), *NASTY.choose(rng).unwrap()),
            2 if pos < chars.len() => chars[pos] = *NASTY.choose(rng).unwrap(),
            _ => chars.truncate(pos),
        }
    }
    chars.into_iter().collect()
}

pub fn parsegen(prop: &str, seed: u64, runs: usize) -> Vec<J> {
    let mut out = vec![];
    let mut top = StdRng::seed_from_u64(seed.wrapping_mul(0x2545_F491_4F6C_DD1D) ^ prop.bytes().fold(7u64, |a, b| a.wrapping_mul(131).wrapping_add(b as u64)));
    let mut id = 0usize;
    let mut push = |out: &mut Vec<J>, prop: &str, text: &str, rl: Option<Vec<usize>>, group: usize, note: &str| {
        id += 1;
        out.push(record(id, prop, text, rl, group, note));
    };
    match prop {
        "C09" => {
            // inputs that used to panic, degenerate texts
            for t in [
                "A B\n0 0 C\n", "A\n(1 ! 2)\n", "A\nlet a = 1 ~ 2;\n1\n", "A\nprogram(1)\n", "A\nprogram", "A\nprogram ", "A\n1\ninit", "A\nloop(i,1)\nmemory", "A\ndef f", "A\ncall", "A\ninit x;\n", "A\nmemory m;\n", "A\ndef f\n", "A\ncall f\n", "", " ", "\n", "\n\n\n", "A", "A B", "A\n",
                "A\r\n", "A A\n", "A\n(", "A\n(1", "A\nbits(", "A\nbits(1", "A\nbits(1,", "A\nloop(", "A\nloop(i", "A\nloop(i,", "A\nloop(i,1", "A\nloop(i,1)", "A\nloop(i,1)\n", "A\nrepeat(",
                "A\nrepeat(1)", "A\nwhile(1)\n", "A\nend", "A\nend loop", "A\nlet", "A\nlet a", "A\nlet a =", "A\nlet a = 1", "A\ndeclare", "A\ndeclare a = 1;", "A\nrandom(", "A\n(random(1", "A\n(ite(1,2", "é\n1\n",
                "A\n(é)\n", "A\n1 é\n", "A\n\u{1F600}\n", "A\n(a\u{0663})\n", "A\n0 C C C\n", "A\nC\nC C\n", "A\nbits(99999999999999999999,1)\n", "A B\nbits(2,3) C\n", "A B C\nbits(3,1) C C\n", "A B\n1 bits(2,1) C\n", "A\nbits(0,1) 1 C\n", "A B\nbits(257,5) 1\n", "A\nbits(256,5) 1\n", "A\n(99999999999999999999)\n", "A\n#\n", "#A\n1\n",
            ] {
                push(&mut out, prop, t, None, 0, "fixed");
            }
            // every error site of the parser (one short line each, plus some valid lines), at top level and inside a block,
            // followed by every kind of line end: nothing, blanks, a comment (also one ending in a multi-byte character), CRLF,
            // a line break, more lines - the location of an error must not depend on what comes after the place it points to
            const LINES: &[&str] = &[
                "1", "1 1", "1 1 1", "", "repeat(2)", "repeat(2) 1", "repeat(2) 1 1", "repeat(2) 1 1 1", "repeat(", "repeat(2", "repeat()", "repeat 2", "bits(2,1)", "bits(2,1) 1", "bits(2,", "bits(2",
                "bits(65,1)", "bits(1)", "bits(1,1) bits(1,", "C C", "C C C", "0 C", "(1", "(1 +", "(1 + )", "1 (", "1 (1", "1 (1))", "x", "x y", "X Z", "let", "let a", "let a =", "let a = ;", "let a = 1", "let a = 1;",
                "let a = 1; 1", "let 1 = 1;", "let a 1;", "declare", "declare a", "declare a = 1", "declare a = 1;", "declare a = 1; 2", "resetRandom", "resetRandom;", "resetRandom; 1", "loop", "loop(", "loop(i",
                "loop(i,", "loop(i,1", "loop(i,1)", "loop(i,1) 1", "loop(1,1)", "while", "while(", "while(1", "while(1)", "while(1) 1", "end", "end loop", "end while", "end foo", "end loop 1", "(ite(1,2)) 1",
                "declare V = 1;\ndeclare V = 2;", "declare V = 1;\n1 1\ndeclare V = 2;", "let a = 1;\ndeclare a = 2;", "(foo(1)) 1", "(random()) 1", "(random(1,2)) 1", "(1 ! 2) 1", "(~) 1", "(-) 1", "(1 +* 2) 1", "program", "program x", "init", "0x 1", "0b2 1", "08 1", "99999999999999999999 1", "$ 1", "1 $", "é 1", "1 é",
            ];
            const ENDS: &[&str] = &["", " ", "   ", "\t# c", " # é", "#日本", "\r\n", "\n", " \n", "\n\n", " # c\n", "\r"];
            for (i, l) in LINES.iter().enumerate() {
                for (j, e) in ENDS.iter().enumerate() {
                    for open in ["", "loop(i,2)\n", "while(a)\n1 1\n"] {
                        let tail = match (i + j) % 3 {
                            0 => "",
                            1 => "\n1 1\n",
                            _ => "\nend loop\n",
                        };
                        let t = format!("A B\n{open}{l}{e}{tail}");
                        push(&mut out, prop, &t, None, 0, "error sites x line ends");
                        if e.is_empty() && !tail.is_empty() {
                            // ... and the line as the very end of the text
                            push(&mut out, prop, &format!("A B\n{open}{l}"), None, 0, "error sites x line ends");
                        }
                    }
                }
            }
            // headers of 63..70 columns (past one machine word), rows with C / X / Z / bits in every region of the row, valid and
            // one entry short or long
            {
                let mut rng = StdRng::seed_from_u64(seed ^ 0x64c0);
                for k in 0..24 {
                    let n = 63 + k % 8;
                    let header: Vec<String> = (0..n).map(|i| format!("s{i}")).collect();
                    let mut t = header.join(" ");
                    t.push('\n');
                    for r in 0..3 {
                        let mut es: Vec<String> = vec![];
                        let mut c = 0;
                        let want = match (k + r) % 4 { 0 => n - 1, 1 => n + 1, _ => n };
                        while c < want {
                            let left = want - c;
                            let e = match rng.gen_range(0..12) {
                                0 | 1 => "C".to_string(),
                                2 => "X".to_string(),
                                3 => "Z".to_string(),
                                4 if left >= 3 => { c += 2; "bits(3,5)".to_string() }
                                5 if left >= 64 => { c += 63; "bits(64,(0-1))".to_string() }
                                6 => "(1+1)".to_string(),
                                _ => format!("{}", c % 2),
                            };
                            es.push(e);
                            c += 1;
                        }
                        // a clock entry in the last columns in any case
                        if r == 0 && es.len() > 2 { let l = es.len(); es[l - 1] = "C".into(); es[l - 2] = "C".into(); }
                        t.push_str(&es.join(" "));
                        t.push('\n');
                    }
                    push(&mut out, prop, &t, None, 0, "more than 64 columns");
                }
            }
            for run in 0..runs {
                let s: u64 = top.gen();
                let mut rng = StdRng::seed_from_u64(s);
                let (header, prog) = valid_program(s);
                let lay = Layout::random(s);
                let printed = print_test(&header, &prog, &lay);
                if run % 11 == 10 {
                    // an error that is reported at the very end of the input, where the input ends (without a line break) in a
                    // comment whose last character takes several bytes
                    let tail = ["é", "日本", "\u{1F600}", "ß", "x"][rng.gen_range(0..5)];
                    let open = ["loop(i,2)", "while(1)", "loop(i,2)\nwhile(0)"][rng.gen_range(0..3)];
                    let last = ["1 1", "let a = 1;", "", "end", "(1", "bits(2,"][rng.gen_range(0..6)];
                    let t = format!("A B\n{open}\n1 0\n{last}{}# c {tail}", if rng.gen_bool(0.5) { " " } else { "" });
                    push(&mut out, prop, &t, None, 0, "error at the end of input inside a comment");
                    continue;
                }
                match if run % 7 == 6 { 5 + run % 2 } else { run % 5 } {
                    5 => {
                        // a header whose names are separated by whatever some definition of white space includes
                        // (the header lexer's own definition is space, tab, CR, FF; everything else belongs to a name)
                        let mut t = String::new();
                        let n = rng.gen_range(1..5);
                        for k in 0..n {
                            t.push_str(["A", "B_out", "Q1", "é", "x9", "_", "C"].choose(&mut rng).unwrap());
                            if k + 1 < n || rng.gen_bool(0.3) {
                                for _ in 0..rng.gen_range(1..3) {
                                    t.push(*WSLIKE.choose(&mut rng).unwrap());
                                }
                            }
                        }
                        // the entries of one row, counted by the property's definition of a blank
                        let names = t.split(|c| c == ' ' || c == '\t' || c == '\r' || c == '\x0c' || c == '\n').filter(|w| !w.is_empty()).count();
                        t.push('\n');
                        let m = if rng.gen_bool(0.8) { names } else { names + 1 };
                        t.push_str(&vec!["1"; m].join(" "));
                        if rng.gen_bool(0.7) {
                            t.push('\n');
                        }
                        push(&mut out, prop, &t, None, 0, "white-space-like characters in the header")
                    }
                    6 => {
                        // the same characters in place of blanks in the statements
                        let t: String = printed.text.chars().map(|c| if c == ' ' && rng.gen_bool(0.15) { *WSLIKE.choose(&mut rng).unwrap() } else { c }).collect();
                        push(&mut out, prop, &t, None, 0, "white-space-like characters in the statements")
                    }
                    0 => {
                        let mut rl = vec![];
                        row_lines_of(&prog, &printed, &mut rl);
                        push(&mut out, prop, &printed.text, Some(rl), 0, "valid")
                    }
                    1 | 2 => push(&mut out, prop, &char_edit(&printed.text, &mut rng), None, 0, "char edit"),
                    3 => {
                        // truncation at a random character
                        let n = printed.text.chars().count();
                        let cut = rng.gen_range(0..=n);
                        let t: String = printed.text.chars().take(cut).collect();
                        push(&mut out, prop, &t, None, 0, "truncated")
                    }
                    _ => {
                        // token soup after a header
                        let mut t = String::from("A B\n");
                        for _ in 0..rng.gen_range(1..25) {
                            t.push_str(VOCAB.choose(&mut rng).unwrap());
                            if rng.gen_bool(0.8) {
                                t.push(' ');
                            }
                        }
                        push(&mut out, prop, &t, None, 0, "soup")
                    }
                }
            }
        }
        "C12" => {
            // a header that is not followed by a line break
            for t in ["A", "A B", "\n\nA B Q", " A\tB ", "A B\r", "é x"] {
                push(&mut out, prop, t, None, 0, "header without line break");
            }
            // headers of 2..7 names in every order, with and without a repeated name (a name may appear once), and programs that
            // declare a signal twice
            {
                let mut rng = StdRng::seed_from_u64(seed ^ 0x4ead);
                let pool = ["A", "B", "C", "D", "Q", "S0", "S1", "CLK", "é", "a_out", "Z9", "x"];
                for k in 0..120 {
                    let n = rng.gen_range(2..8);
                    let mut names: Vec<&str> = pool.choose_multiple(&mut rng, n).cloned().collect();
                    if k % 5 != 0 {
                        let from = rng.gen_range(0..names.len());
                        let dup = names[from];
                        let at = rng.gen_range(0..=names.len());
                        names.insert(at, dup);
                    }
                    let sep = [" ", "  ", "\t"][k % 3];
                    let row = vec!["1"; names.len()].join(" ");
                    let decl = match k % 7 {
                        3 => "declare V = 1;\ndeclare W = 2;\n",
                        5 => "declare V = 1;\nlet a = 2;\ndeclare V = 2;\n",
                        _ => "",
                    };
                    let t = format!("{}\n{decl}{row}\n", names.join(sep));
                    push(&mut out, prop, &t, None, 0, "header with / without a repeated name");
                }
            }
            for run in 0..runs {
                let s: u64 = top.gen();
                let mut rng = StdRng::seed_from_u64(s);
                let (header, prog) = valid_program(s);
                let lay = Layout { final_newline: true, ..Layout::canonical() };
                let printed = print_test(&header, &prog, &lay);
                let text = printed.text.clone();
                if run % 8 == 0 {
                    push(&mut out, prop, &text, None, 0, "valid");
                    continue;
                }
                let toks = verif::tokens(&text, true).unwrap_or_default();
                let body: Vec<&(String, usize, usize)> = toks.iter().filter(|t| t.0 != "SignalName" && t.0 != "HeaderEol" && t.0 != "Eof").collect();
                if body.is_empty() {
                    continue;
                }
                let pick = |rng: &mut StdRng, kinds: &[&str]| -> Option<(usize, usize)> {
                    let c: Vec<&&(String, usize, usize)> = body.iter().filter(|t| kinds.contains(&t.0.as_str())).collect();
                    c.choose(rng).map(|t| (t.1, t.2))
                };
                let replace = |span: (usize, usize), with: &str| format!("{}{}{}", &text[..span.0], with, &text[span.1..]);
                let (mutant, note): (Option<String>, &str) = match rng.gen_range(0..17) {
                    14 => {
                        // names are case-sensitive: a function name in another case is an unknown function
                        (pick(&mut rng, &["Ident"]).filter(|s| matches!(&text[s.0..s.1], "ite" | "random")).map(|s| {
                            let w = &text[s.0..s.1];
                            let v = match rng.gen_range(0..3) { 0 => w.to_uppercase(), 1 => format!("{}{}", w[..1].to_uppercase(), &w[1..]), _ => format!("{}{}", &w[..w.len() - 1], w[w.len() - 1..].to_uppercase()) };
                            replace(s, &v)
                        }), "function name in another case")
                    }
                    15 => {
                        // ... and so are keywords: in another case they are identifiers
                        (pick(&mut rng, &["Let", "Loop", "While", "Repeat", "Declare", "End", "Bits", "ResetRandom"]).map(|s| {
                            let w = &text[s.0..s.1];
                            let v = if rng.gen_bool(0.5) { w.to_uppercase() } else { format!("{}{}", w[..1].to_uppercase(), &w[1..]) };
                            replace(s, &v)
                        }), "keyword in another case")
                    }
                    16 => {
                        // the other function's name: too few arguments for ite, too many for random
                        (pick(&mut rng, &["Ident"]).filter(|s| matches!(&text[s.0..s.1], "ite" | "random")).map(|s| replace(s, if &text[s.0..s.1] == "ite" { "random" } else { "ite" })), "arity of the other function")
                    }
                    0 => (pick(&mut rng, &["Semi"]).map(|s| replace(s, "")), "delete ;"),
                    1 => (pick(&mut rng, &["RParen"]).map(|s| replace(s, "")), "delete )"),
                    2 => (pick(&mut rng, &["Comma"]).map(|s| replace(s, "")), "delete ,"),
                    3 => (pick(&mut rng, &["End"]).map(|s| replace(s, "")), "delete end"),
                    4 => {
                        // swap the keyword after `end`
                        let ends: Vec<usize> = body.iter().enumerate().filter(|(_, t)| t.0 == "End").map(|(i, _)| i).collect();
                        (
                            ends.choose(&mut rng).and_then(|&i| body.get(i + 1)).map(|t| replace((t.1, t.2), if t.0 == "Loop" { "while" } else { "loop" })),
                            "swap end keyword",
                        )
                    }
                    5 => (Some(format!("{}end loop\n", text)), "end at top level"),
                    6 => {
                        // truncation at a token boundary, with or without a final newline
                        let t = body.choose(&mut rng).unwrap();
                        let mut m = text[..t.1].to_string();
                        if rng.gen_bool(0.5) {
                            m.push('\n');
                        }
                        (Some(m), "truncate")
                    }
                    7 => (pick(&mut rng, &["DecInt", "OctInt"]).map(|s| replace(s, *["9223372036854775808", "18446744073709551616", "0xFFFFFFFFFFFFFFFFF", "0x8000000000000000", "0XFFFFFFFFFFFFFFFF",
                        "0b1000000000000000000000000000000000000000000000000000000000000000", "01000000000000000000000", "01777777777777777777777", "0x10000000000000000"].choose(&mut rng).unwrap())), "literal too large"),
                    8 => (pick(&mut rng, &["Ident"]).filter(|s| matches!(&text[s.0..s.1], "ite" | "random")).map(|s| replace(s, "foo")), "unknown function"),
                    9 => {
                        // arity: add an argument to a call
                        let idx = body.iter().position(|t| t.0 == "Ident" && matches!(&text[t.1..t.2], "ite" | "random"));
                        (idx.and_then(|i| body.get(i + 1)).map(|lp| replace((lp.2, lp.2), "1,")), "arity + 1")
                    }
                    10 => {
                        let w = *["65", "66", "128", "255", "256", "257", "320", "1000", "65537", "4294967297", "0x101", "0b100000001"].choose(&mut rng).unwrap();
                        // the rest of the row is adapted to the width the literal would have after a wrap-around to 8 bits
                        (pick(&mut rng, &["Bits"]).map(|_| text.replacen("bits(2", &format!("bits({w}"), 1)).filter(|t| t != &text), "bits width above 64")
                    }
                    11 => {
                        // one entry too many / too few in a data row: add a literal at the end of a random line that is a row
                        let lines: Vec<&str> = text.lines().collect();
                        let rows: Vec<usize> = printed.line_of.values().cloned().collect();
                        rows.choose(&mut rng).map(|&ln| {
                            let mut ls: Vec<String> = lines.iter().map(|l| l.to_string()).collect();
                            match rng.gen_range(0..4) {
                                0 => ls[ln - 1].push_str(" 1"),
                                1 => ls[ln - 1].push_str(" C"),
                                2 => ls[ln - 1].push_str(" C C"),
                                _ => ls[ln - 1] = format!("X {}", ls[ln - 1]),
                            }
                            (ls.join("\n") + "\n", ())
                        })
                        .map(|x| x.0)
                        .map(|m| (Some(m), "row too long"))
                        .unwrap_or((None, "row too long"))
                    }
                    12 => {
                        // duplicated header name
                        let first = header[0].clone();
                        let mut lines: Vec<String> = text.lines().map(|l| l.to_string()).collect();
                        lines[0] = format!("{} {}", lines[0], first);
                        (Some(lines.join("\n") + "\n"), "duplicate header name")
                    }
                    _ => {
                        // duplicated declaration (or a header without a line break when there is none)
                        let d = text.lines().find(|l| l.trim_start().starts_with("declare")).map(|l| l.to_string());
                        match d {
                            Some(d) => (Some(format!("{}{}\n", text, d)), "duplicate declare"),
                            None => (Some(header.join(" ")), "header without line break"),
                        }
                    }
                };
                if let Some(m) = mutant {
                    // each mutant with and without a trailing newline
                    let m2 = if m.ends_with('\n') { m.trim_end_matches('\n').to_string() } else { format!("{m}\n") };
                    push(&mut out, prop, &m, None, 0, note);
                    push(&mut out, prop, &m2, None, 0, note);
                }
            }
        }
        "C19" => {
            for i in 0..runs {
                let s: u64 = top.gen();
                let (header, prog) = valid_program(s);
                let mut lay = Layout::random(s);
                if i % 25 == 24 {
                    // line numbers past 255: hundreds of blank and comment lines
                    lay = Layout { blank_p: 0.9, comment_line_p: 0.85, pre_blank: 20 + (s % 50) as usize, ..lay };
                }
                let printed = print_test(&header, &prog, &lay);
                let mut rl = vec![];
                row_lines_of(&prog, &printed, &mut rl);
                push(&mut out, prop, &printed.text, Some(rl), 0, "valid");
            }
        }
        "C20" => {
            // a literal that does not fit in 64 bits is rejected in every radix (the verdict is layout-independent)
            let big: [(&str, [&str; 5]); 4] = [
                ("2^63", ["9223372036854775808", "0x8000000000000000", "0X8000000000000000", "0b1000000000000000000000000000000000000000000000000000000000000000", "01000000000000000000000"]),
                ("2^64-1", ["18446744073709551615", "0xffffffffffffffff", "0XFFFFFFFFFFFFFFFF", "0B1111111111111111111111111111111111111111111111111111111111111111", "01777777777777777777777"]),
                ("2^64", ["18446744073709551616", "0x10000000000000000", "0X10000000000000000", "0b10000000000000000000000000000000000000000000000000000000000000000", "02000000000000000000000"]),
                ("2^63-1", ["9223372036854775807", "0x7fffffffffffffff", "0X7FFFFFFFFFFFFFFF", "0b111111111111111111111111111111111111111111111111111111111111111", "0777777777777777777777"]),
            ];
            for (gi, (_, spellings)) in big.iter().enumerate() {
                for ctx in 0..3 {
                    for sp in spellings {
                        let t = match ctx {
                            0 => format!("A\n{sp}\n"),
                            1 => format!("A\n({sp} + 1)\n"),
                            _ => format!("A\nlet a = {sp};\n(a)\n"),
                        };
                        push(&mut out, prop, &t, None, 100_000 + gi * 3 + ctx, "oversized literal");
                    }
                }
            }
            for g in 1..=runs {
                let s: u64 = top.gen();
                let (header, prog) = valid_program(s);
                for v in 0..4u64 {
                    // layout-only rewritings keep the token sequence: same parentheses, same spelling of C/X/Z
                    let lay = if v == 0 { Layout::canonical() } else { Layout { parens: Parens::Minimal, final_newline: true, ..Layout::random(s.wrapping_add(v)) } };
                    let printed = print_test(&header, &prog, &lay);
                    let mut rl = vec![];
                    row_lines_of(&prog, &printed, &mut rl);
                    push(&mut out, prop, &printed.text, Some(rl), g, "layout variant");
                }
            }
        }
        "C15" => {
            // determinism: the same text parsed again and again (each HashMap instance has its own hash seed) must give
            // equal tests with the signals in the same order, every time equal to what the specification says
            for i in 0..runs {
                let s: u64 = top.gen();
                let mut g = Gen::new(s, Knobs { max_virtuals: 5, p_c: 0.1, p_device: 0.4, bidir: true, max_stmts: 10, ..Knobs::control_flow() });
                let (header, supplied, prog) = if i % 2 == 0 {
                    let plan = g.plan();
                    let prog = g.program(&plan);
                    (plan.header, plan.supplied, prog)
                } else {
                    rich_text(&mut g.rng)
                };
                let printed = print_test(&header, &prog, &Layout::random(s));
                // three signal lists: the one that fits, one whose inputs are outputs (clock columns cannot be driven),
                // one whose outputs are inputs (nothing can be read back): the outcome of binding, error text included, must not vary
                let lists: Vec<Vec<digital_test_runner::Signal>> = vec![
                    supplied.iter().map(|x| x.to_real()).collect(),
                    supplied.iter().map(|x| if x.is_in() { Sig::output(&x.name, x.bits).to_real() } else { x.to_real() }).collect(),
                    supplied.iter().map(|x| if x.dir == Dir::Out { Sig::input(&x.name, x.bits, Val::N(0)).to_real() } else { x.to_real() }).collect(),
                ];
                let bind_all = |p: &Option<ParsedTestCase>| -> Vec<String> {
                    lists
                        .iter()
                        .map(|l| match p.clone().map(|p| p.with_signals(l.clone())) {
                            None => "no parse".to_string(),
                            Some(Ok(t)) => format!("ok {:?} {}", t.signals.iter().map(|x| x.name.clone()).collect::<Vec<_>>(), t.verif_dump()),
                            Some(Err(e)) => format!("err {e:?}"),
                        })
                        .collect()
                };
                let sigs = lists[0].clone();
                let first = ParsedTestCase::from_str(&printed.text).ok();
                let first_tc = first.clone().and_then(|p| p.with_signals(sigs.clone()).ok());
                let first_binds = bind_all(&first);
                let first_dbg = format!("{first:?}");
                for k in 0..6 {
                    let mut rl = vec![];
                    row_lines_of(&prog, &printed, &mut rl);
                    push(&mut out, prop, &printed.text, Some(rl), 0, "reparse");
                    let again = ParsedTestCase::from_str(&printed.text).ok();
                    let again_tc = again.clone().and_then(|p| p.with_signals(sigs.clone()).ok());
                    let same = again == first
                        && format!("{again:?}") == first_dbg
                        && bind_all(&again) == first_binds
                        && again_tc == first_tc
                        && again_tc.as_ref().map(|t| t.signals.iter().map(|x| x.name.clone()).collect::<Vec<_>>()) == first_tc.as_ref().map(|t| t.signals.iter().map(|x| x.name.clone()).collect::<Vec<_>>())
                        && again_tc.as_ref().map(|t| t.verif_dump()) == first_tc.as_ref().map(|t| t.verif_dump());
                    if let Some(last) = out.last_mut() {
                        last["reparse_ok"] = json!(same);
                        last["note"] = json!(format!("reparse {k}"));
                    }
                }
            }
        }
        "display" => {
            // growth beyond the listed properties: what `Display for TestCase` prints for the statements parses back to the
            // same statements (fully parenthesised expressions, `repeat` shown as a loop over n)
            for _ in 0..runs {
                let s: u64 = top.gen();
                let mut g = Gen::new(s, Knobs { max_virtuals: 1, allow_random: true, p_c: 0.05, p_x: 0.08, bidir: true, big_consts: s % 3 == 0, max_stmts: 14, ..Knobs::control_flow() });
                let plan = g.plan();
                let prog = g.program(&plan);
                let printed = print_test(&plan.header, &prog, &Layout::canonical());
                let sigs: Vec<digital_test_runner::Signal> = plan.supplied.iter().map(|x| x.to_real()).collect();
                let Some(tc) = ParsedTestCase::from_str(&printed.text).ok().and_then(|p| p.with_signals(sigs).ok()) else { continue };
                let shown = format!("{tc}");
                let body: Vec<&str> = shown.lines().skip(1).collect();
                let text2 = format!("{}\n{}\n", plan.header.join(" "), body.join("\n"));
                let d: J = serde_json::from_str(&tc.verif_dump()).expect("dump");
                push(&mut out, prop, &text2, None, 0, "display");
                if let Some(last) = out.last_mut() {
                    last["has_ref"] = json!(true);
                    last["ref_stmts"] = json!(dump_stmts_to_spec(&d["stmts"]));
                }
            }
        }
        _ => panic!("no parse workload for {prop}"),
    }
    out
}

/// A corpus of small valid programs as token lists (for MC_Parser's corpus mode): the crate's own lexer cuts the
/// canonical text into tokens; each token keeps its source text so that edited token lists can be rendered again.
pub fn corpus(seed: u64, n: usize) -> Vec<J> {
    let mut out = vec![];
    let mut top = StdRng::seed_from_u64(seed ^ 0xC0_4B05);
    // a few hand-written programs that exercise every statement form, then generated ones
    let fixed = [
        "A B\nloop(i,2)\n1 1\nend loop\n",
        "A B\nwhile(a<2)\nlet a = a+1;\n(a) X\nend while\n",
        "A B\ndeclare V = A + 1;\nrepeat(3) (n) C\nresetRandom;\nbits(2,5)\n",
        "A B\nloop(i,2)\nloop(j,random(3))\n(ite(i,j,1)) Z\nend loop\nend loop\nlet b = -1;\n0x1 0b1\n",
        "A B\nloop(i,2)\nwhile(i)\n1 1\nend while\nend loop",
    ];
    let mut texts: Vec<String> = fixed.iter().map(|s| s.to_string()).collect();
    while texts.len() < n {
        let s: u64 = top.gen();
        let mut g = Gen::new(s, Knobs { max_virtuals: 1, allow_random: true, p_c: 0.1, p_x: 0.1, max_stmts: 6, max_depth: 2, expr_depth: 1, p_loop: 0.2, p_while: 0.15, ..Knobs::control_flow() });
        let plan = g.plan();
        let prog = g.program(&plan);
        let lay = Layout { final_newline: top.gen_bool(0.5), ..Layout::canonical() };
        let t = print_test(&plan.header, &prog, &lay).text;
        if t.len() < 260 {
            texts.push(t);
        }
    }
    for (id, text) in texts.iter().enumerate() {
        assert!(ParsedTestCase::from_str(text).is_ok(), "corpus program must be valid: {text}");
        let toks = verif::tokens(text, true).expect("header");
        let conv = |t: &(String, usize, usize)| {
            let src = &text[t.1..t.2];
            let is_int = matches!(t.0.as_str(), "DecInt" | "HexInt" | "BinInt" | "OctInt");
            json!({"k": t.0, "s": 0, "e": 0, "txt": if t.0 == "Ident" || t.0 == "SignalName" { src } else { "" },
                   "cs": if is_int { src.chars().map(|c| c as u32).collect::<Vec<_>>() } else { vec![] }, "src": src})
        };
        let htoks: Vec<J> = toks.iter().filter(|t| t.0 == "SignalName" || t.0 == "HeaderEol").map(conv).collect();
        let body: Vec<J> = toks.iter().filter(|t| t.0 != "SignalName" && t.0 != "HeaderEol" && t.0 != "Eof").map(conv).collect();
        out.push(json!({"id": id + 1, "htoks": htoks, "toks": body, "text": text}));
    }
    out
}


/// A text rich in everything the parser collects by name (several columns first clocked in one and the same row, several
/// declarations, several device reads inside one expression, many header names): whatever is kept in a hash map shows here.
fn rich_text(rng: &mut StdRng) -> (Vec<String>, Vec<Sig>, Vec<Stmt>) {
    use rand::seq::SliceRandom;
    let nk = rng.gen_range(3..8);
    let nq = rng.gen_range(3..6);
    let mut supplied: Vec<Sig> = (1..=nk).map(|i| Sig::input(&format!("K{i}"), 1, Val::N(0))).collect();
    supplied.push(Sig::input("A", 8, Val::N(0)));
    supplied.push(Sig::bidir("D", 4, Val::Z));
    for i in 1..=nq {
        supplied.push(Sig::output(&format!("Q{i}"), 8));
    }
    supplied.shuffle(rng);
    let mut header: Vec<String> = supplied.iter().filter(|s| s.is_in()).map(|s| s.name.clone()).collect();
    header.push("D_out".into());
    header.push("Q1".into());
    header.shuffle(rng);
    let mut prog = vec![];
    let mut order: Vec<usize> = (1..=nq).collect();
    order.shuffle(rng);
    for &k in &order {
        prog.push(Stmt::Declare { name: format!("V{k}"), e: Expr::bin("+", Expr::id(&format!("Q{k}")), Expr::id(&format!("Q{}", k % nq + 1))) });
    }
    order.shuffle(rng);
    let sum = order.iter().fold(Expr::num(1), |a, k| Expr::bin("+", a, Expr::id(&format!("Q{k}"))));
    let mut id = 0;
    let mut row = |f: &dyn Fn(&str) -> Entry| {
        id += 1;
        Stmt::Row { id, entries: header.iter().map(|h| f(h)).collect() }
    };
    // every clock column is first clocked in the same row
    let e = sum.clone();
    prog.push(row(&|h| if h.starts_with('K') { Entry::C } else if h == "A" { Entry::Expr(e.clone()) } else if h == "D" { Entry::Z } else { Entry::X }));
    prog.push(row(&|h| if h.starts_with('K') { Entry::Num(0) } else if h == "A" { Entry::Num(2) } else if h == "D" { Entry::Num(3) } else { Entry::X }));
    let some_c = rng.gen_range(1..=nk);
    prog.push(row(&|h| if h.starts_with('K') && h[1..].parse::<usize>().unwrap() <= some_c { Entry::C } else if h.starts_with('K') { Entry::X } else if h == "A" { Entry::Expr(Expr::id("Q2")) } else if h == "D" { Entry::Z } else { Entry::Num(1) }));
    (header, supplied, prog)
}
