//! Per-property workloads: which tests, layouts, drivers and fault plans are run and traced.

use crate::gen::*;
use crate::printer::*;
use crate::run::*;
use crate::model::*;
use rand::rngs::StdRng;
use rand::{Rng, SeedableRng};
use serde_json::Value as J;

pub fn tracegen(prop: &str, seed: u64, runs: usize) -> Vec<J> {
    let mut out = vec![];
    let mut top = StdRng::seed_from_u64(seed.wrapping_mul(0x9E37_79B9_7F4A_7C15) ^ prop.bytes().fold(0u64, |a, b| a * 131 + b as u64));
    for run in 1..=runs {
        let s: u64 = top.gen();
        match prop {
            "C01" | "C18" => out.extend(control_flow_run(prop, run, s)),
            _ => panic!("no trace workload for {prop}"),
        }
    }
    out
}

fn control_flow_run(prop: &str, run: usize, seed: u64) -> Vec<J> {
    let mut g = Gen::new(seed, Knobs::control_flow());
    let plan = g.plan();
    let prog = g.program(&plan);
    let test = Test { header: plan.header.clone(), supplied: plan.supplied.clone(), prog };
    let layout = if g.rng.gen_bool(0.5) { Layout::canonical() } else { Layout::random(seed) };
    let printed = print_test(&test.header, &test.prog, &layout);
    let prep = Prepared { test, printed, layout };
    let n_out = prep.test.supplied.iter().filter(|s| s.is_out()).count();
    let cfg = RunCfg { run, prop: prop.to_string(), own_write: g.rng.gen_bool(0.5), max_rows: 60, rng_seed: seed };
    trace_run(&prep, &cfg, policy_small(seed, n_out))
}
