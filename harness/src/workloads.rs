//! Per-property workloads: which tests, layouts, drivers and fault plans are run and traced.
//!
//! Every workload is shaped by the quantifier of its property and kept clear of the corners other properties own
//! (DESIGN section 6.2): the control-flow workload has no clock entries, the protocol workload no device feedback, ...

use crate::gen::*;
use crate::model::*;
use crate::printer::*;
use crate::run::*;
use rand::rngs::StdRng;
use rand::seq::SliceRandom;
use rand::{Rng, SeedableRng};
use serde_json::{json, Value as J};

pub fn tracegen(prop: &str, seed: u64, runs: usize) -> Vec<J> {
    tracegen_only(prop, seed, runs, None)
}

/// `only`: regenerate just this run (for replaying a recorded violation)
pub fn tracegen_only(prop: &str, seed: u64, runs: usize, only: Option<usize>) -> Vec<J> {
    let mut out = vec![];
    if prop == "fixtures" {
        return crate::digwl::fixture_runs(prop, seed);
    }
    let mut top = StdRng::seed_from_u64(seed.wrapping_mul(0x9E37_79B9_7F4A_7C15) ^ prop.bytes().fold(0u64, |a, b| a.wrapping_mul(131).wrapping_add(b as u64)));
    for run in 1..=runs {
        let s: u64 = top.gen();
        if only.map(|o| o != run).unwrap_or(false) {
            continue;
        }
        let lines = match prop {
            "C01" | "C18" => general_run(prop, run, s, Knobs::control_flow(), Opt::default()),
            "C19" => general_run(prop, run, s, Knobs { max_virtuals: 1, ..Knobs::control_flow() }, Opt { layout: Lay::Random, ..Opt::default() }),
            "C02" => general_run(
                prop,
                run,
                s,
                Knobs { p_c: 0.2, p_x: 0.1, bidir: true, max_stmts: 10, ..Knobs::rows() },
                Opt { after_none: 2, random_prefix: true, faults: FaultMode::ErrorsOnly(0.15), layouts: LayoutMode::Subset, ..Opt::default() },
            ),
            "C03" => general_run(
                prop,
                run,
                s,
                Knobs { bidir: true, p_c: 0.05, max_virtuals: 1, big_consts: true, suffix_names: run % 4 == 0, ..Knobs::rows() },
                Opt { layouts: LayoutMode::Subset, mode: ValMode::Wild, p_zx: 0.25, many_outputs_in_header: true, ..Opt::default() },
            ),
            "C04" => general_run(
                prop,
                run,
                s,
                Knobs { p_device: 0.6, p_c: 0.1, p_x: 0.05, bidir: true, max_stmts: 14, ..Knobs::control_flow() },
                Opt { layouts: LayoutMode::MaybeMissing, mode: ValMode::Small, p_zx: 0.008, zx_all: true, ..Opt::default() },
            ),
            "C05" => general_run(
                prop,
                run,
                s,
                // (few variables and shallow expressions: what rows are made of is other properties' business)
                Knobs { p_x: 0.22, p_c: 0.22, p_z: 0.05, bidir: true, max_depth: 2, max_stmts: 8, p_row: 0.6, p_loop: 0.15, p_repeat: 0.1, p_while: 0.03, max_bound: 2, p_let: 0.05, p_expr: 0.25, expr_depth: 1,
                        ..Knobs::control_flow() },
                Opt { max_rows: 150, many_outputs_in_header: true, ..Opt::default() },
            ),
            "C13" => general_run(
                prop,
                run,
                s,
                Knobs { p_c: 0.15, p_x: 0.05, bidir: true, max_stmts: 10, max_virtuals: 1, ..Knobs::rows() },
                Opt { faults: FaultMode::All(0.8), layouts: LayoutMode::Subset, mode: ValMode::InWidth, ..Opt::default() },
            ),
            "C14" => general_run(
                prop,
                run,
                s,
                Knobs { max_virtuals: 4, bidir: true, p_c: 0.08, max_stmts: 14, suffix_names: run % 3 == 0, absorbing_virtuals: run % 2 == 1, ..Knobs::control_flow() },
                Opt { layouts: LayoutMode::Subset, mode: ValMode::Wild, p_zx: if run % 2 == 1 { 0.15 } else { 0.06 }, ..Opt::default() },
            ),
            "C17" => {
              crate::OS_ENTROPY.store(run % 2 == 1, std::sync::atomic::Ordering::Relaxed);
              let v = general_run(
                prop,
                run,
                s,
                Knobs { allow_random: true, p_reset: if run % 4 == 1 { 0.2 } else { 0.12 }, big_consts: run % 3 == 0, max_virtuals: if run % 4 == 1 { 2 } else { 1 }, random_in_declares: run % 4 == 1, zero_bits: run % 3 == 2, p_x: 0.05, p_c: 0.05, max_depth: 3, p_while: if run % 2 == 0 { 0.12 } else { 0.04 },
                        ..Knobs::control_flow() },
                Opt::default(),
              );
              crate::OS_ENTROPY.store(false, std::sync::atomic::Ordering::Relaxed);
              v
            }
            "C20" => {
                // one program, three layouts: every variant must behave as the one specification instance says
                let mut v = vec![];
                for k in 0..3u64 {
                    v.extend(general_run(prop, run * 3 + k as usize, s, Knobs { max_virtuals: 1, p_c: 0.05, p_x: 0.05, bidir: true, twin_literals: true, ..Knobs::control_flow() },
                        Opt { layout_seed: Some(s.wrapping_add(k * 7919)), layout: if k == 0 { Lay::Canonical } else { Lay::Random }, group: (run as u64, k + 1), ..Opt::default() }));
                }
                v
            }
            "dig" => crate::digwl::dig_loaded_run(prop, run, s),
            "C06" => binding_run(prop, run, s),
            "C11" => mismatch_run(prop, run, s),
            "chg" => changed_run(prop, run, s),
            "C15" => sched_run(prop, run, s),
            "C07" => width_run(prop, run, s),
            "C08" => expr_run(prop, run, s),
            "C10" => error_run(prop, run, s),
            w if w.starts_with("scale-") => scale_run(prop, run, s),
            _ => panic!("no trace workload for {prop}"),
        };
        out.extend(lines);
    }
    out
}

#[derive(Debug, Clone, Copy, PartialEq)]
pub enum Lay {
    Mixed,
    Random,
    Canonical,
}

#[derive(Debug, Clone, Copy, PartialEq)]
pub enum LayoutMode {
    /// every output-capable signal, in signal-list order
    Full,
    /// a random subset and permutation which still supplies everything the program reads
    Subset,
    /// like Subset, but sometimes a signal the program reads is missing (the constructor must fail)
    MaybeMissing,
}

#[derive(Debug, Clone, Copy, PartialEq)]
pub enum FaultMode {
    None,
    /// with this probability one call fails with an error
    ErrorsOnly(f64),
    /// with this probability one call fails or deviates from the first layout
    All(f64),
}

#[derive(Debug, Clone)]
pub struct Opt {
    pub layout: Lay,
    pub layouts: LayoutMode,
    pub mode: ValMode,
    pub p_zx: f64,
    pub zx_all: bool,
    pub faults: FaultMode,
    pub max_rows: usize,
    /// call next() this many more times after it returned None
    pub after_none: usize,
    /// stop after a random number of rows (every prefix of the iteration is a behaviour)
    pub random_prefix: bool,
    pub many_outputs_in_header: bool,
    /// layout chosen independently of the program seed (layout variants of one program, C20)
    pub layout_seed: Option<u64>,
    /// (group, variant) of a layout group; (0, 0) = none
    pub group: (u64, u64),
}

impl Default for Opt {
    fn default() -> Self {
        Opt {
            layout: Lay::Mixed,
            layouts: LayoutMode::Full,
            mode: ValMode::Small,
            p_zx: 0.0,
            zx_all: false,
            faults: FaultMode::None,
            max_rows: 60,
            after_none: 0,
            random_prefix: false,
            many_outputs_in_header: false,
            layout_seed: None,
            group: (0, 0),
        }
    }
}

pub fn choose_layout(lay: Lay, seed: u64, rng: &mut StdRng) -> Layout {
    match lay {
        Lay::Canonical => Layout::canonical(),
        Lay::Random => Layout::random(seed),
        Lay::Mixed => {
            if rng.gen_bool(0.5) {
                Layout::canonical()
            } else {
                Layout::random(seed)
            }
        }
    }
}

/// Build the policy spec for a test: layout selection, value mode, fault plan.
pub fn policy_for(test: &Test, opt: &Opt, seed: u64, rng: &mut StdRng, expected_calls: usize) -> PolicySpec {
    let table: Vec<&Sig> = test.supplied.iter().filter(|s| s.is_out()).collect();
    let n = table.len();
    let rd = reads(&test.prog);
    // signals the statements read carry small numbers; signals only read by declarations may be anything
    let rd_stmts = reads(&strip_declares(&test.prog));
    let numeric: Vec<usize> = (0..n).filter(|&j| rd_stmts.contains(&table[j].name)).collect();
    let must_supply: Vec<usize> = (0..n).filter(|&j| rd.contains(&table[j].name)).collect();
    let mut layout: Vec<usize> = (0..n).collect();
    match opt.layouts {
        LayoutMode::Full => {}
        LayoutMode::Subset | LayoutMode::MaybeMissing => {
            layout.shuffle(rng);
            let keep = rng.gen_range(0..=n);
            let mut kept: Vec<usize> = layout.iter().cloned().take(keep).collect();
            for j in &must_supply {
                if !kept.contains(j) {
                    let pos = rng.gen_range(0..=kept.len());
                    kept.insert(pos, *j);
                }
            }
            if opt.layouts == LayoutMode::MaybeMissing && !must_supply.is_empty() && rng.gen_bool(0.3) {
                let drop = *must_supply.choose(rng).unwrap();
                kept.retain(|j| *j != drop);
            }
            layout = kept;
        }
    }
    let fault = match opt.faults {
        FaultMode::None => None,
        FaultMode::ErrorsOnly(p) => {
            if rng.gen_bool(p) {
                Some((rng.gen_range(0..=expected_calls.min(12)), Fault::Error(rng.gen_range(1..1000))))
            } else {
                None
            }
        }
        FaultMode::All(p) => {
            if rng.gen_bool(p) {
                let at = rng.gen_range(0..=expected_calls.min(12));
                let f = match rng.gen_range(0..9) {
                    0 | 1 | 2 => Fault::Error(rng.gen_range(1..1000)),
                    3 => Fault::Drop,
                    8 => Fault::DropAll,
                    4 => Fault::Add,
                    5 => Fault::Duplicate,
                    6 => Fault::Swap,
                    _ => Fault::Substitute,
                };
                // deviations are defined relative to the first answer, so they start at call 1
                let at = if matches!(f, Fault::Error(_)) { at } else { at.max(1) };
                Some((at, f))
            } else {
                None
            }
        }
    };
    PolicySpec {
        seed,
        layout,
        widths: table.iter().map(|s| s.bits).collect(),
        mode: opt.mode,
        numeric,
        p_zx: opt.p_zx,
        zx_all: opt.zx_all,
        fault,
        foreign: n,
    }
}

fn strip_declares(stmts: &[Stmt]) -> Vec<Stmt> {
    stmts
        .iter()
        .filter(|s| !matches!(s, Stmt::Declare { .. }))
        .map(|s| match s {
            Stmt::Loop { var, max, body } => Stmt::Loop { var: var.clone(), max: max.clone(), body: strip_declares(body) },
            Stmt::While { cond, body } => Stmt::While { cond: cond.clone(), body: strip_declares(body) },
            s => s.clone(),
        })
        .collect()
}

fn general_run(prop: &str, run: usize, seed: u64, knobs: Knobs, opt: Opt) -> Vec<J> {
    let mut g = Gen::new(seed, knobs);
    let mut plan = g.plan();
    if opt.many_outputs_in_header {
        // bind more output columns so that rows carry several checked outputs
        let mut extra: Vec<String> = plan.supplied.iter().filter(|s| s.dir == Dir::Out && !plan.header.contains(&s.name)).map(|s| s.name.clone()).collect();
        extra.shuffle(&mut g.rng);
        for e in extra.into_iter().take(3) {
            plan.header.push(e);
            plan.col_is_input.push(false);
        }
    }
    let prog = g.program(&plan);
    let test = Test { header: plan.header.clone(), supplied: plan.supplied.clone(), prog };
    let layout = match opt.layout_seed {
        Some(ls) => {
            let mut r2 = StdRng::seed_from_u64(ls);
            Layout { parens: Parens::Minimal, ..choose_layout(opt.layout, ls, &mut r2) }
        }
        None => choose_layout(opt.layout, seed, &mut g.rng),
    };
    let printed = print_test(&test.header, &test.prog, &layout);
    let own_write = g.rng.gen_bool(0.5);
    let max_rows = if opt.random_prefix && g.rng.gen_bool(0.5) { g.rng.gen_range(0..10) } else { opt.max_rows };
    let spec = policy_for(&test, &opt, seed, &mut g.rng, 10);
    let cfg = RunCfg { run, prop: prop.to_string(), own_write, max_rows, rng_seed: seed, after_none: opt.after_none,
        cfg_note: json!({"policy": format!("{:?}", spec), "group": opt.group.0, "variant": opt.group.1}) };
    let prep = Prepared { test, printed, layout };
    trace_run(&prep, &cfg, make_policy(spec))
}

// ---------------------------------------------------------------------------------------------
// C06: binding by header name -- any header against any signal list

fn binding_run(prop: &str, run: usize, seed: u64) -> Vec<J> {
    let mut rng = StdRng::seed_from_u64(seed);
    // names real circuits use: header names are any non-blank text
    let pool = ["A", "B", "Q", "R", "S", "~CLR", "I/O7", "Cn+4", "C", "x", "D", "D_out", "é1", "n"];
    let mut names: Vec<&str> = pool.to_vec();
    names.shuffle(&mut rng);
    let nsig = rng.gen_range(1..=6);
    let mut supplied = vec![];
    for name in names.into_iter().take(nsig) {
        let bits = *[1usize, 2, 4, 8, 16, 31, 32, 33, 63, 64].choose(&mut rng).unwrap();
        let def = match rng.gen_range(0..4) {
            0 => Val::Z,
            1 => Val::N(0),
            2 => Val::N(rng.gen_range(0..1000)),
            _ => Val::N(*BOUNDARY.choose(&mut rng).unwrap()),
        };
        supplied.push(match rng.gen_range(0..3) {
            0 => Sig::input(name, bits, def),
            1 => Sig::output(name, bits),
            _ => Sig::bidir(name, bits, def),
        });
    }
    // candidate columns: <name> for every signal, <name>_out for bidirectional ones; any subset, any order
    let mut cols: Vec<(String, bool)> = vec![];
    for s in &supplied {
        cols.push((s.name.clone(), s.is_in()));
        if s.dir == Dir::Bidir {
            cols.push((format!("{}_out", s.name), false));
        }
    }
    // a column <x>_out may clash with a supplied signal literally called <x>_out: then it is that signal's column
    cols.sort();
    cols.dedup_by(|a, b| a.0 == b.0);
    cols.shuffle(&mut rng);
    let keep = rng.gen_range(1..=cols.len());
    cols.truncate(keep);
    let header: Vec<String> = cols.iter().map(|c| c.0.clone()).collect();
    let col_is_input: Vec<bool> = header.iter().map(|h| supplied.iter().any(|s| &s.name == h && s.is_in())).collect();
    let plan = Plan { header: header.clone(), supplied: supplied.clone(), col_is_input, bit_pairs: vec![], virtuals: vec![], readable: vec![] };
    let mut g = Gen::new(seed ^ 1, Knobs { p_expr: 0.1, p_x: 0.05, p_c: 0.08, p_z: 0.1, p_bits: 0.0, wide_literals: true, vars: vec!["k".into()], expr_depth: 1, max_stmts: 8, max_depth: 1, p_while: 0.0, p_let: 0.05, ..Knobs::rows() });
    // expressions in this workload use only the loop variable k and constants: no device reads
    let mut prog = vec![];
    let nrows = g.rng.gen_range(1..6);
    for _ in 0..nrows {
        let id = g.row_id();
        prog.push(Stmt::Row { id, entries: lit_entries(&mut g, &plan, false) });
    }
    if g.rng.gen_bool(0.4) {
        let id = g.row_id();
        let body = vec![Stmt::Row { id, entries: lit_entries(&mut g, &plan, true) }];
        prog.push(Stmt::Loop { var: "k".into(), max: Expr::Num(g.rng.gen_range(1..4)), body });
    }
    let test = Test { header, supplied, prog };
    let layout = choose_layout(Lay::Mixed, seed, &mut g.rng);
    let printed = print_test(&test.header, &test.prog, &layout);
    let opt = Opt { layouts: LayoutMode::Subset, mode: ValMode::InWidth, ..Opt::default() };
    let spec = policy_for(&test, &opt, seed, &mut g.rng, 6);
    let cfg = RunCfg { run, prop: prop.to_string(), own_write: g.rng.gen_bool(0.5), max_rows: 80, rng_seed: seed, after_none: 0, cfg_note: json!({"policy": format!("{:?}", spec)}) };
    trace_run(&Prepared { test, printed, layout }, &cfg, make_policy(spec))
}

fn lit_entries(g: &mut Gen, plan: &Plan, in_loop: bool) -> Vec<Entry> {
    plan.col_is_input
        .iter()
        .map(|&is_in| {
            let r: f64 = g.rng.gen();
            if is_in {
                if r < 0.06 {
                    Entry::X
                } else if r < 0.14 {
                    Entry::C
                } else if r < 0.24 {
                    Entry::Z
                } else if r < 0.3 && in_loop {
                    Entry::Expr(Expr::bin("+", Expr::id("k"), Expr::Num(g.rng.gen_range(0..100))))
                } else {
                    Entry::Num(lit(g))
                }
            } else if r < 0.2 {
                Entry::X
            } else if r < 0.3 {
                Entry::Z
            } else {
                Entry::Num(lit(g))
            }
        })
        .collect()
}

fn lit(g: &mut Gen) -> i64 {
    match g.rng.gen_range(0..4) {
        0 => (*BOUNDARY.choose(&mut g.rng).unwrap()).max(0),
        1 => g.rng.gen_range(0..i64::MAX),
        _ => g.rng.gen_range(0..300),
    }
}

// ---------------------------------------------------------------------------------------------
// C07: truncation to the signal width, every width 1..=64, both paths, every kind of entry

fn width_run(prop: &str, run: usize, seed: u64) -> Vec<J> {
    let mut rng = StdRng::seed_from_u64(seed);
    // the run number sweeps the widths so that every tier covers 1..=64 completely on every path;
    // the three signals have different widths, and neither the signal list nor the header is in any fixed order
    let bits = (run - 1) % 64 + 1;
    let (wi, wd, wo) = match (run / 64) % 3 {
        0 => (bits, (bits + 20) % 64 + 1, (bits + 41) % 64 + 1),
        1 => ((bits + 20) % 64 + 1, bits, (bits + 41) % 64 + 1),
        _ => ((bits + 41) % 64 + 1, (bits + 20) % 64 + 1, bits),
    };
    let vals: Vec<i64> = (0..4)
        .map(|i| match (run / 64 + i) % 3 {
            0 => BOUNDARY[(run + i * 7) % BOUNDARY.len()],
            1 => rng.gen::<i64>(),
            _ => {
                let k = rng.gen_range(0..64);
                (1i64 << k).wrapping_add(rng.gen_range(-2..3))
            }
        })
        .collect();
    // every fifth run: ONE header column bound to TWO signals of different widths (the `D_out` column is the expected
    // column of the bidirectional `D` and the input column of an input that is itself called `D_out`): each of the two
    // values is reduced to the width of its own signal
    let double = run % 5 == 2;
    let iname = if double { "D_out" } else { "I" };
    let mut supplied = vec![Sig::input(iname, wi, Val::N(0)), Sig::bidir("D", wd, Val::Z), Sig::output("O", wo), Sig::output("s", 64)];
    supplied.shuffle(&mut rng);
    let mut header: Vec<String> = (if double { vec!["D", "D_out", "O", "V"] } else { vec!["I", "D", "D_out", "O", "V"] }).iter().map(|s| s.to_string()).collect();
    header.shuffle(&mut rng);
    let n = header.len();
    let col = |name: &str| header.iter().position(|h| h == name).unwrap();
    let mut prog = vec![Stmt::Declare { name: "V".into(), e: Expr::id("s") }];
    let mut id = 0;
    let mut row = |entries: Vec<Entry>| {
        id += 1;
        Stmt::Row { id, entries }
    };
    for v in &vals {
        let e = Gen::const_of(*v);
        // literal entries can only be non-negative; negative values come through expressions
        let lit = if *v >= 0 { Entry::Num(*v) } else { Entry::Expr(e.clone()) };
        prog.push(row(vec![lit.clone(); n]));
        prog.push(row(vec![Entry::Expr(e.clone()); n]));
        // a prefix operator directly on a literal (the value of `!k` is 0 or 1, of `~k` every bit flipped, whatever the width)
        let k = Expr::Num(v.wrapping_abs().max(0));
        prog.push(row((0..n).map(|c| Entry::Expr(Expr::un(["!", "~", "-"][(c + run) % 3], if c % 2 == 0 { k.clone() } else { Expr::Num((c / 2) as i64) }))).collect()));
        // through a variable (no arithmetic here: overflow behaviour is C08's business)
        prog.push(Stmt::Let { name: "t".into(), e: e.clone() });
        let mut es = vec![Entry::Expr(Expr::id("t")); n];
        es[col("D")] = Entry::Z;
        es[col("O")] = Entry::X;
        prog.push(row(es));
        // one bit per column, whatever the column's width and the argument's sign
        prog.push(row(vec![Entry::Bits(n as u8, Expr::id("t"))]));
        prog.push(row(vec![Entry::Bits(2, Expr::bin("-", Expr::num(0), Expr::id("t"))), Entry::Bits((n - 2) as u8, Expr::un("~", Expr::id("t")))]));
    }
    let test = Test { header: header.clone(), supplied, prog };
    let layout = choose_layout(Lay::Mixed, seed, &mut rng);
    let printed = print_test(&test.header, &test.prog, &layout);
    let opt = Opt { mode: ValMode::Wild, ..Opt::default() };
    let mut spec = policy_for(&test, &opt, seed, &mut rng, 6);
    spec.mode = ValMode::Wild;
    let cfg = RunCfg { run, prop: prop.to_string(), own_write: rng.gen_bool(0.5), max_rows: 80, rng_seed: seed, after_none: 0, cfg_note: json!({"bits": [wi, wd, wo]}) };
    trace_run(&Prepared { test, printed, layout }, &cfg, make_policy(spec))
}

// ---------------------------------------------------------------------------------------------
// C08: expressions, observed un-truncated through a virtual-signal column

fn expr_run(prop: &str, run: usize, seed: u64) -> Vec<J> {
    let vars: Vec<String> = ["a", "b", "c", "q", "r"].iter().map(|s| s.to_string()).collect();
    let mut g = Gen::new(seed, Knobs { vars: vars.clone(), big_consts: true, allow_div: true, expr_depth: 4, p_device: 0.3, allow_random: run % 3 == 0, ..Knobs::control_flow() });
    let supplied = vec![Sig::input("A", 64, Val::N(0)), Sig::output("q", 64), Sig::output("r", 64), Sig::output("a", 64), Sig::output("b", 64), Sig::output("c", 64)];
    let header: Vec<String> = ["A", "V"].iter().map(|s| s.to_string()).collect();
    let plan = Plan { header: header.clone(), supplied: supplied.clone(), col_is_input: vec![true, false], bit_pairs: vec![], virtuals: vec![], readable: vec!["q".into(), "r".into()] };
    let mut prog = vec![Stmt::Declare { name: "V".into(), e: Expr::Num(0) }];
    // a valuation including 64-bit boundary values
    for v in ["a", "b", "c"] {
        if g.rng.gen_bool(0.8) {
            let c = if g.rng.gen_bool(0.6) { *BOUNDARY.choose(&mut g.rng).unwrap() } else { g.rng.gen::<i64>() >> g.rng.gen_range(0..64) };
            prog.push(Stmt::Let { name: v.into(), e: Gen::const_of(c) });
        }
    }
    let nrows = g.rng.gen_range(2..7);
    for i in 0..nrows {
        let depth = 1 + (run + i) % 5;
        let e = tree(&mut g, depth, &plan);
        let id = g.row_id();
        prog.push(Stmt::Row { id, entries: vec![Entry::Expr(e.clone()), Entry::Expr(e)] });
    }
    let test = Test { header, supplied, prog };
    let layout = Layout { mixed_radix: g.rng.gen_bool(0.7), parens: *[Parens::Minimal, Parens::Minimal, Parens::Full, Parens::Random].choose(&mut g.rng).unwrap(), tight: g.rng.gen_bool(0.4), ..Layout::canonical() };
    let layout = Layout { seed, ..layout };
    let printed = print_test(&test.header, &test.prog, &layout);
    let opt = Opt { mode: ValMode::Wild, ..Opt::default() };
    let mut spec = policy_for(&test, &opt, seed, &mut g.rng, 6);
    // the device outputs read by expressions carry 64-bit boundary numbers too, never Z/X here
    spec.numeric.clear();
    spec.p_zx = 0.0;
    let cfg = RunCfg { run, prop: prop.to_string(), own_write: false, max_rows: 40, rng_seed: seed, after_none: 0, cfg_note: json!({}) };
    trace_run(&Prepared { test, printed, layout }, &cfg, make_policy(spec))
}

/// an expression tree over every operator of the property, without the division guard when the divisor is a
/// non-zero constant, with shift counts of every size
fn tree(g: &mut Gen, depth: usize, plan: &Plan) -> Expr {
    if depth == 0 {
        return match g.rng.gen_range(0..3) {
            0 => Gen::const_of(*BOUNDARY.choose(&mut g.rng).unwrap()),
            1 => Expr::Num(g.rng.gen_range(0..70)),
            _ => {
                if g.rng.gen_bool(0.3) {
                    Expr::Id(plan.readable.choose(&mut g.rng).unwrap().clone())
                } else {
                    Expr::Id(g.k.vars[..3].choose(&mut g.rng).unwrap().clone())
                }
            }
        };
    }
    let c = g.rng.gen_range(0..100);
    if c < 70 {
        let ops = ["+", "-", "*", "/", "%", "&", "|", "^", "<<", ">>", "<", ">", "<=", ">=", "=", "!="];
        let op = *ops.choose(&mut g.rng).unwrap();
        let l = tree(g, depth - 1, plan);
        let mut r = tree(g, depth - 1, plan);
        if op == "/" || op == "%" {
            r = match g.rng.gen_range(0..3) {
                0 => Gen::const_of(*[1i64, -1, 2, 3, 7, -7, 10, i64::MAX, i64::MIN, 65536].choose(&mut g.rng).unwrap()),
                _ => Expr::bin("|", r, Expr::Num(1)),
            };
        }
        Expr::bin(op, l, r)
    } else if g.k.allow_random && c < 74 {
        // only `ite` is lazy: an operand next to an absorbing zero is still evaluated (here: it draws)
        let zero = match g.rng.gen_range(0..3) {
            0 => Expr::Num(0),
            1 => Expr::bin("-", Expr::Id("a".into()), Expr::Id("a".into())),
            _ => Expr::un("!", Expr::Num(7)),
        };
        let draw = Expr::call("random", vec![Expr::Num(g.rng.gen_range(2..50))]);
        let op = *["*", "&", "<<", ">>"].choose(&mut g.rng).unwrap();
        if g.rng.gen_bool(0.6) { Expr::bin(op, zero, draw) } else { Expr::bin(op, draw, zero) }
    } else if c < 85 {
        let op = *["-", "!", "~"].choose(&mut g.rng).unwrap();
        Expr::un(op, tree(g, depth - 1, plan))
    } else {
        // the unselected branch would fail if it were evaluated (lazy ite)
        let cond = tree(g, depth - 1, plan);
        let good = tree(g, depth - 1, plan);
        if g.rng.gen_bool(0.4) {
            // ... or it would draw a random number (a side effect instead of a failure: the draw log shows it)
            let bad = if g.k.allow_random && g.rng.gen_bool(0.5) {
                Expr::bin("+", Expr::call("random", vec![Expr::Num(g.rng.gen_range(2..100))]), Expr::Num(1))
            } else {
                Expr::bin("/", Expr::Num(1), Expr::Num(0))
            };
            if g.rng.gen_bool(0.5) {
                Expr::call("ite", vec![Expr::bin("|", cond, Expr::Num(1)), good, bad])
            } else {
                Expr::call("ite", vec![Expr::bin("&", cond, Expr::Num(0)), bad, good])
            }
        } else {
            Expr::call("ite", vec![cond, good, tree(g, depth - 1, plan)])
        }
    }
}

// ---------------------------------------------------------------------------------------------
// C10: conditions that make evaluation impossible, at every expression position; wide signals

fn error_run(prop: &str, run: usize, seed: u64) -> Vec<J> {
    let mut g = Gen::new(seed, Knobs { p_device: 0.3, big_consts: true, bidir: true, p_c: 0.05, p_x: 0.03, max_stmts: 12, max_virtuals: 1, zero_bits: run % 4 == 0, ..Knobs::control_flow() });
    let mut plan = g.plan();
    // wide signals
    for s in plan.supplied.iter_mut() {
        if g.rng.gen_bool(0.3) {
            s.bits = *[62usize, 63, 64].choose(&mut g.rng).unwrap();
        }
    }
    let mut prog = g.program(&plan);
    // one poisoned expression of a random kind
    let poison = match run % 9 {
        // arithmetic corners that must give a value, not a panic: MIN % -1, MIN / -1, -MIN, MAX + 1, huge shift counts
        6 => Expr::bin(*["%", "/"].choose(&mut g.rng).unwrap(), Gen::const_of(i64::MIN), Expr::un("-", Expr::Num(1))),
        7 => match g.rng.gen_range(0..3) {
            0 => Expr::un("-", Gen::const_of(i64::MIN)),
            1 => Expr::bin("+", Expr::Num(i64::MAX), g.expr(1)),
            _ => Expr::bin("*", Expr::Num(i64::MAX), Expr::Num(i64::MAX)),
        },
        8 => Expr::bin(*["<<", ">>"].choose(&mut g.rng).unwrap(), g.expr(1), Gen::const_of(*[64i64, 65, -1, -64, 1 << 40, i64::MIN].choose(&mut g.rng).unwrap())),
        0 => Expr::bin("/", g.expr(1), Expr::bin("-", Expr::Num(3), Expr::Num(3))),
        1 => Expr::bin("%", g.expr(1), Expr::Num(0)),
        2 => Expr::id("u"), // assigned only inside a while that never runs; a device output `u` does not exist
        3 => Expr::call("random", vec![Gen::const_of(*[1i64, 1, 0, -1, -5, i64::MIN].choose(&mut g.rng).unwrap())]),
        4 => Expr::call("signExt", vec![Expr::Num(4), g.expr(1)]),
        _ => Expr::bin("+", Expr::Num(1), Expr::bin("/", Expr::Num(7), Expr::bin("&", g.expr(1), Expr::Num(0)))),
    };
    let needs_u = run % 9 == 2;
    if needs_u {
        // `u` is in scope for the parser (while opens no scope) but never assigned at run time
        prog.insert(0, Stmt::While { cond: Expr::Num(0), body: vec![Stmt::Let { name: "u".into(), e: Expr::Num(1) }] });
    }
    // wrap it at a random expression position
    let wrapped = match g.rng.gen_range(0..4) {
        0 => poison,
        1 => Expr::bin("+", g.expr(1), poison),
        2 => Expr::call("ite", vec![Expr::Num(1), poison, Expr::Num(0)]),
        _ => Expr::un("-", poison),
    };
    let pos_kind = g.rng.gen_range(0..5);
    let id = g.row_id();
    let mut entries = g.entries(&plan);
    let stmt = match pos_kind {
        0 => Stmt::Let { name: "a".into(), e: wrapped },
        1 => {
            let id2 = g.row_id();
            Stmt::Loop { var: "i".into(), max: wrapped, body: vec![Stmt::Row { id: id2, entries: g.entries(&plan) }] }
        }
        2 => {
            let id2 = g.row_id();
            Stmt::While { cond: wrapped, body: vec![Stmt::Row { id: id2, entries: g.entries(&plan) }] }
        }
        3 => {
            let id2 = g.row_id();
            Stmt::Repeat { max: wrapped, id: id2, entries: g.entries(&plan) }
        }
        _ => {
            // inside a row entry of an input column
            let c = entries.iter().position(|e| matches!(e, Entry::Num(_) | Entry::Expr(_))).unwrap_or(0);
            // (a bits() group keeps its width)
            entries[c] = match &entries[c] {
                Entry::Bits(n, _) => Entry::Bits(*n, wrapped),
                _ => Entry::Expr(wrapped),
            };
            Stmt::Row { id, entries: entries.clone() }
        }
    };
    let at = g.rng.gen_range(if needs_u { 1 } else { 0 }..=prog.len());
    prog.insert(at, stmt);
    let test = Test { header: plan.header.clone(), supplied: plan.supplied.clone(), prog };
    let layout = choose_layout(Lay::Mixed, seed, &mut g.rng);
    let printed = print_test(&test.header, &test.prog, &layout);
    let opt = Opt { layouts: LayoutMode::Subset, mode: ValMode::Wild, p_zx: 0.1, ..Opt::default() };
    let spec = policy_for(&test, &opt, seed, &mut g.rng, 8);
    let cfg = RunCfg { run, prop: prop.to_string(), own_write: g.rng.gen_bool(0.5), max_rows: 60, rng_seed: seed, after_none: 0, cfg_note: json!({"policy": format!("{:?}", spec)}) };
    trace_run(&Prepared { test, printed, layout }, &cfg, make_policy(spec))
}

// ---------------------------------------------------------------------------------------------
// C11: programs against signal lists that may or may not fit (names, directions, duplicates, omissions, extras)

fn mismatch_run(prop: &str, run: usize, seed: u64) -> Vec<J> {
    let mut g = Gen::new(seed, Knobs { p_device: 0.3, p_c: 0.2, p_x: 0.05, p_bits: 0.45, bidir: true, max_stmts: 8, max_virtuals: 2, max_depth: 2, ..Knobs::control_flow() });
    let plan = g.plan();
    let mut prog = g.program(&plan);
    // now and then a clock entry in a column that is not an input column (an output, a `<name>_out` or a virtual column):
    // such a test must be refused (C11), and if it is not, running it must still not panic (C10)
    if g.rng.gen_bool(0.15) {
        let cols: Vec<usize> = (0..plan.header.len()).filter(|&c| !plan.col_is_input[c]).collect();
        fn first_plain_row(stmts: &mut [Stmt]) -> Option<&mut Vec<Entry>> {
            for s in stmts {
                match s {
                    Stmt::Row { entries, .. } | Stmt::Repeat { entries, .. } if entries.iter().all(|e| e.width() == 1) => return Some(entries),
                    Stmt::Loop { body, .. } | Stmt::While { body, .. } => {
                        if let Some(e) = first_plain_row(body) {
                            return Some(e);
                        }
                    }
                    _ => {}
                }
            }
            None
        }
        if let (Some(&c), Some(entries)) = (cols.choose(&mut g.rng), first_plain_row(&mut prog)) {
            if c < entries.len() {
                entries[c] = Entry::C;
            }
        }
    }
    let mut supplied = plan.supplied.clone();
    // zero to two edits of the signal list; half of them aim at a signal whose column holds a clock entry or that an
    // expression reads (those are the signals the binder's checks are about)
    let mut hot: Vec<String> = vec![];
    fn clock_cols(stmts: &[Stmt], header: &[String], out: &mut Vec<String>) {
        for s in stmts {
            match s {
                Stmt::Row { entries, .. } | Stmt::Repeat { entries, .. } => {
                    let mut c = 0;
                    for e in entries {
                        if matches!(e, Entry::C) && c < header.len() {
                            out.push(header[c].clone());
                        }
                        c += e.width();
                    }
                }
                Stmt::Loop { body, .. } | Stmt::While { body, .. } => clock_cols(body, header, out),
                _ => {}
            }
        }
    }
    clock_cols(&prog, &plan.header, &mut hot);
    // quite often: a signal whose column holds a clock entry stops being an input
    if !hot.is_empty() && g.rng.gen_bool(0.35) {
        let name = hot[g.rng.gen_range(0..hot.len())].clone();
        if let Some(k) = supplied.iter().position(|s| s.name == name) {
            supplied[k].dir = Dir::Out;
            supplied[k].def = Val::X;
        }
    }
    hot.extend(reads(&prog));
    let n_edits = g.rng.gen_range(0..3);
    for _ in 0..n_edits {
        if supplied.is_empty() {
            break;
        }
        let mut i = g.rng.gen_range(0..supplied.len());
        if !hot.is_empty() && g.rng.gen_bool(0.5) {
            let name = &hot[g.rng.gen_range(0..hot.len())];
            if let Some(k) = supplied.iter().position(|s| &s.name == name) {
                i = k;
            }
        }
        match g.rng.gen_range(0..7) {
            0 => {
                supplied.remove(i);
            }
            1 => {
                let d = supplied[i].clone();
                let at = g.rng.gen_range(0..=supplied.len());
                supplied.insert(at, d);
            }
            2 => supplied[i].dir = Dir::In,
            3 => {
                supplied[i].dir = Dir::Out;
                supplied[i].def = Val::X;
            }
            4 => {
                supplied[i].dir = Dir::Bidir;
                if supplied[i].def == Val::X {
                    supplied[i].def = Val::N(0);
                }
            }
            5 => {
                // a changed name; now and then the name `<bidirectional>_out` itself, so that the header's `_out` column
                // (if it has one) is at the same time the column of this signal
                let bidir = supplied.iter().find(|s| s.dir == Dir::Bidir).map(|s| s.name.clone());
                supplied[i].name = match bidir {
                    Some(b) if b != supplied[i].name && g.rng.gen_bool(0.5) => format!("{b}_out"),
                    _ => format!("{}x", supplied[i].name),
                };
            }
            _ => {
                // rename to the name of a virtual signal, or add an extra signal
                if !plan.virtuals.is_empty() && g.rng.gen_bool(0.5) {
                    supplied[i].name = plan.virtuals[0].clone();
                } else {
                    supplied.push(Sig::output("extra", 3));
                }
            }
        }
    }
    for s in supplied.iter_mut() {
        if s.is_in() && s.def == Val::X {
            s.def = Val::N(1);
        }
    }
    let test = Test { header: plan.header.clone(), supplied, prog };
    let layout = choose_layout(Lay::Mixed, seed, &mut g.rng);
    let printed = print_test(&test.header, &test.prog, &layout);
    let opt = Opt { layouts: LayoutMode::Full, mode: ValMode::Small, ..Opt::default() };
    let spec = policy_for(&test, &opt, seed, &mut g.rng, 8);
    let cfg = RunCfg { run, prop: prop.to_string(), own_write: g.rng.gen_bool(0.5), max_rows: 40, rng_seed: seed, after_none: 0, cfg_note: json!({"edits": n_edits}) };
    trace_run(&Prepared { test, printed, layout }, &cfg, make_policy(spec))
}

// ---------------------------------------------------------------------------------------------
// C15: several iterators over one test, interleaved step by step, each with its own driver; re-iteration;
// static iteration

fn sched_run(prop: &str, run: usize, seed: u64) -> Vec<J> {
    use crate::driver::*;
    use digital_test_runner::errors::IterationError;
    use digital_test_runner::verif;
    // (every fourth test - never a static one - draws random numbers and resets the generator: each live iterator has a generator
    // of its own, so stepping the others in between changes neither its draws nor what `resetRandom` replays)
    let draws = run % 4 == 3;
    let mut g = Gen::new(seed, Knobs { p_c: 0.08, p_x: 0.05, bidir: true, max_stmts: 10, max_virtuals: 1, allow_random: draws, p_reset: if draws { 0.15 } else { 0.02 }, p_device: if run % 2 == 0 { 0.0 } else { 0.3 }, ..Knobs::control_flow() });
    if run % 2 == 0 {
        // static tests may declare virtual signals too, as long as these read nothing either (constant expressions, below)
        g.k.max_virtuals = if run % 6 == 0 || run % 10 == 8 { 2 } else { 0 };
    }
    let plan = g.plan();
    let mut prog = g.program(&plan);
    if run % 2 == 0 {
        fn constant_declares(stmts: &mut [Stmt], rng: &mut StdRng) {
            for s in stmts {
                match s {
                    // (now and then one that cannot be evaluated - a division by zero: an error item at every checked row, static or not)
                    Stmt::Declare { e, .. } => {
                        *e = if rng.gen_bool(0.35) {
                            Expr::bin(["/", "%"].choose(rng).unwrap(), Expr::Num(rng.gen_range(0..9)), Expr::bin("-", Expr::Num(2), Expr::Num(2)))
                        } else {
                            Expr::bin(["+", "*", "<<", "/", "%"].choose(rng).unwrap(), Expr::Num(rng.gen_range(0..9)), Expr::Num(rng.gen_range(1..5)))
                        }
                    }
                    Stmt::Loop { body, .. } | Stmt::While { body, .. } => constant_declares(body, rng),
                    _ => {}
                }
            }
        }
        constant_declares(&mut prog, &mut g.rng);
        // now and then a row in the middle that cannot be evaluated (the iteration, static or dynamic, goes on after it)
        if run % 10 == 4 {
            let mut es = g.entries(&plan);
            if let Some(first) = es.iter_mut().find(|e| e.width() == 1 && !matches!(e, Entry::C | Entry::X)) {
                *first = Entry::Expr(Expr::bin("/", Expr::Num(1), Expr::Num(0)));
            }
            let id = g.row_id();
            let at = g.rng.gen_range(0..=prog.len()); // (the assignments below are put in front of it)
            prog.insert(at, Stmt::Row { id, entries: es });
        }
        // a static test: every name is assigned at top level before it is used, so nothing is read from the device
        let mut names: Vec<String> = g.k.vars.clone();
        for d in 0..=g.k.max_depth {
            names.push(format!("w{d}"));
        }
        for (k, n) in names.into_iter().enumerate() {
            prog.insert(k, Stmt::Let { name: n, e: Expr::Num(g.rng.gen_range(0..4)) });
        }
        // every fourth test: one of those names is first assigned from itself, which IS a device read (so the test is
        // not static after all)
        if run % 4 == 2 {
            let k = g.rng.gen_range(0..g.k.vars.len());
            let b_bidir = plan.supplied.iter().any(|s| s.name == "B" && s.dir == Dir::Bidir);
            if let Stmt::Let { name, e } = &mut prog[k] {
                // ... or the one thing read from the device is a bidirectional signal (output-capable, so not static either)
                *e = if run % 8 == 6 && b_bidir { Expr::bin("+", Expr::id("B"), Expr::Num(1)) } else { Expr::bin("+", Expr::Id(name.clone()), Expr::Num(1)) };
            }
        }
    }
    let test = Test { header: plan.header.clone(), supplied: plan.supplied.clone(), prog };
    let layout = choose_layout(Lay::Mixed, seed, &mut g.rng);
    let printed = print_test(&test.header, &test.prog, &layout);
    *crate::WATCH_TEXT.lock().unwrap() = printed.text.clone();
    let mut out = vec![];
    let loaded = load(&printed.text, &test.supplied);
    let (tc, load_kind, load_res) = match loaded {
        Loaded::Ok(tc) => (Some(tc), "ok", "ok".to_string()),
        Loaded::ParseErr(e) => (None, "parse", e),
        Loaded::BindErr(e) => (None, "bind", e),
        Loaded::Panic(p) => (None, "panic", p),
    };
    let observed = tc.as_ref().map(observed_signals).unwrap_or_default();
    out.push(json!({"ev":"begin","run":run,"prop":prop,"load":load_kind,"load_msg":load_res,"test":test_to_spec(&test, &printed, &observed),
        "own_write":true,"cfg":{"sched":true},"text":printed.text,"rng_seed":seed.to_string()}));
    let Some(tc) = tc else {
        out.push(json!({"ev":"end","run":run,"group":0,"variant":0,"load":"ok"}));
        return out;
    };
    let table = driver_table(&test);
    // drivers of static tests sometimes fail once (the iteration is continued): static = dynamic "whatever the driver returns"
    let opt = Opt { layouts: LayoutMode::Subset, mode: ValMode::Small, faults: if run % 2 == 0 { FaultMode::ErrorsOnly(0.5) } else { FaultMode::None }, ..Opt::default() };
    // four drivers with different answers; two or three iterators run interleaved, the rest afterwards (re-iteration)
    let mut drivers: Vec<DrvW> = vec![];
    let mut logs = vec![];
    let solo_rng = g.rng.clone();
    for k in 0..4u64 {
        let spec = policy_for(&test, &opt, seed.wrapping_add(k * 101), &mut g.rng, 8);
        let (core, log) = Core::new(table.clone(), make_policy(spec));
        drivers.push(DrvW(core));
        logs.push(log);
    }
    let n_par = g.rng.gen_range(2..4);
    let take = |log: &std::rc::Rc<std::cell::RefCell<Log>>| {
        let mut l = log.borrow_mut();
        let calls: Vec<J> = l.calls.drain(..).map(|c| call_to_spec(&c)).collect();
        let ans = l.answers.drain(..).last();
        (calls, answer_to_spec(ans.as_ref(), &table))
    };
    let mut its: Vec<Option<digital_test_runner::DataRowIterator<'_, '_, DrvW>>> = vec![];
    for (k, d) in drivers.iter_mut().enumerate() {
        if k >= n_par {
            its.push(None);
            // created later
            let _ = d;
            continue;
        }
        verif::set_seed_override(Some(seed.wrapping_add(k as u64)));
        let _ = verif::take_rng_log();
        let r = guarded(|| tc.try_iter(d));
        let (calls, answer) = take(&logs[k]);
        let (res, it) = match r {
            Err(p) => (json!({"k":"panic","id":0,"msg":p}), None),
            Ok(Err(IterationError::Driver(DrvErr(id)))) => (json!({"k":"driver","id":id}), None),
            Ok(Err(IterationError::Runtime(_))) => (json!({"k":"runtime","id":0}), None),
            Ok(Ok(it)) => (json!({"k":"ok","id":0}), Some(it)),
        };
        out.push(json!({"ev":"try_iter","run":run,"it":k + 1,"calls":calls,"answer":answer,"res":res}));
        its.push(it);
    }
    // the interleaving
    let mut items_of_first: Vec<J> = vec![];
    let mut nerr = vec![0usize; 4];
    let mut budget = 60;
    while budget > 0 && its.iter().any(|i| i.is_some()) {
        budget -= 1;
        let live: Vec<usize> = its.iter().enumerate().filter(|(_, i)| i.is_some()).map(|(k, _)| k).collect();
        let k = live[g.rng.gen_range(0..live.len())];
        let it = its[k].as_mut().unwrap();
        let item = guarded(|| it.next());
        let rng = rng_to_spec();
        let (calls, answer) = take(&logs[k]);
        let mut stop = false;
        let item_j = match &item {
            Err(p) => {
                stop = true;
                json!({"k":"panic","msg":p})
            }
            Ok(None) => {
                stop = true;
                json!({"k":"none"})
            }
            Ok(Some(Err(IterationError::Driver(DrvErr(id))))) => {
                nerr[k] += 1;
                stop = nerr[k] >= 2;
                json!({"k":"err","class":"driver","id":id})
            }
            Ok(Some(Err(IterationError::Runtime(e)))) => {
                nerr[k] += 1;
                stop = nerr[k] >= 2;
                json!({"k":"err","class":"runtime","id":0,"why":runtime_why(&format!("{e:?}"))})
            }
            Ok(Some(Ok(row))) => row_to_spec(row),
        };
        let vars_j: Vec<J> = if item.is_ok() {
            let mut v: Vec<(String, i64)> = guarded(|| it.vars()).unwrap_or_default().into_iter().collect();
            v.sort();
            v.into_iter().map(|(n, v)| json!({"n": n, "v": limbs(v)})).collect()
        } else {
            vec![]
        };
        if k == 0 {
            items_of_first.push(json!({"item": item_j, "calls": calls, "vars": vars_j}));
        }
        out.push(json!({"ev":"next","run":run,"it":k + 1,"rng":rng,"calls":calls,"answer":answer,"item":item_j,"vars":vars_j}));
        if stop {
            its[k] = None;
        }
    }
    let first_unfinished = its[0].is_some();
    drop(its);
    // C15, differential: the first iterator's items, obtained while the others were stepped in between, equal the items
    // of an iterator that runs alone against a driver giving the same answers
    let solo_same = {
        // the same policy as driver 0: rebuild it exactly as above (same rng stream)
        let mut r2 = solo_rng.clone();
        let spec = policy_for(&test, &opt, seed, &mut r2, 8);
        let (core, log) = Core::new(table.clone(), make_policy(spec));
        let mut d = DrvW(core);
        verif::set_seed_override(Some(seed));
        let _ = verif::take_rng_log();
        let mut same = true;
        if let Ok(Ok(mut it)) = guarded(|| tc.try_iter(&mut d)) {
            let _ = take(&log);
            let mut errs = 0;
            for want in items_of_first.iter() {
                let item = guarded(|| it.next());
                let _ = rng_to_spec();
                let (calls, _answer) = take(&log);
                let item_j = match &item {
                    Err(p) => json!({"k":"panic","msg":p}),
                    Ok(None) => json!({"k":"none"}),
                    Ok(Some(Err(IterationError::Driver(DrvErr(id))))) => json!({"k":"err","class":"driver","id":id}),
                    Ok(Some(Err(IterationError::Runtime(e)))) => json!({"k":"err","class":"runtime","id":0,"why":runtime_why(&format!("{e:?}"))}),
                    Ok(Some(Ok(row))) => row_to_spec(row),
                };
                let vars_j: Vec<J> = if item.is_ok() {
                    let mut v: Vec<(String, i64)> = guarded(|| it.vars()).unwrap_or_default().into_iter().collect();
                    v.sort();
                    v.into_iter().map(|(n, v)| json!({"n": n, "v": limbs(v)})).collect()
                } else {
                    vec![]
                };
                if json!({"item": item_j, "calls": calls, "vars": vars_j}) != *want {
                    same = false;
                    break;
                }
                if item_j["k"] == "err" {
                    errs += 1;
                    if errs >= 2 {
                        break;
                    }
                }
                if item_j["k"] == "none" || item_j["k"] == "panic" {
                    break;
                }
            }
        } else if !items_of_first.is_empty() {
            same = false;
        }
        let _ = first_unfinished;
        same
    };
    out.push(json!({"ev":"solo","run":run,"same":solo_same}));
    // static iteration: succeeds exactly when the program reads no outputs, and then agrees with every dynamic run
    verif::set_seed_override(Some(seed.wrapping_add(77)));
    let _ = verif::take_rng_log();
    match guarded(|| tc.try_iter_static()) {
        Err(p) => out.push(json!({"ev":"try_iter_static","run":run,"it":9,"res":{"k":"panic","msg":p}})),
        Ok(Err(_)) => out.push(json!({"ev":"try_iter_static","run":run,"it":9,"res":{"k":"static_err"}})),
        Ok(Ok(mut sit)) => {
            out.push(json!({"ev":"try_iter_static","run":run,"it":9,"res":{"k":"ok"}}));
            let mut sseq: Vec<J> = vec![];
            let mut serrs = 0;
            for _ in 0..40 {
                let item = guarded(|| sit.next());
                let rng = rng_to_spec();
                let (j, stop) = match item {
                    Err(p) => (json!({"k":"panic","msg":p}), true),
                    Ok(None) => (json!({"k":"none"}), true),
                    // the iteration goes on after an error item, as the dynamic one does (at most twice)
                    Ok(Some(Err(_))) => {
                        serrs += 1;
                        (json!({"k":"err"}), serrs >= 2)
                    }
                    Ok(Some(Ok(row))) => (
                        json!({"k":"row","line":row.line,
                            "inputs":row.inputs.iter().map(|i| json!({"s": i.signal.name, "v": ival(i.value).to_spec(), "ch": i.changed})).collect::<Vec<_>>(),
                            "expected":row.expected.iter().map(|e| json!({"s": e.signal.name, "v": eval_(e.value).to_spec()})).collect::<Vec<_>>()}),
                        false,
                    ),
                };
                sseq.push(match j["k"].as_str().unwrap_or("") {
                    "row" => json!({"k":"row","line":j["line"],"inputs":j["inputs"],"expected":j["expected"]}),
                    k => json!({"k":k,"line":0,"inputs":[],"expected":[]}),
                });
                out.push(json!({"ev":"next_static","run":run,"it":9,"rng":rng,"item":j}));
                if stop {
                    break;
                }
            }
            // C15, differential (two real runs): the static items against the first dynamic iterator's items, position by
            // position, as far as the dynamic run was not disturbed by its driver (TLC evaluates StaticAgrees on the two lists)
            let dseq: Vec<J> = items_of_first
                .iter()
                .map(|x| {
                    let it = &x["item"];
                    match it["k"].as_str().unwrap_or("") {
                        "row" => json!({"k":"row","line":it["line"],"inputs":it["inputs"],"why":"",
                            "expected":it["outputs"].as_array().map(|a| a.iter().map(|o| json!({"s":o["s"],"v":o["exp"]})).collect::<Vec<_>>()).unwrap_or_default()}),
                        "err" => json!({"k":"err","line":0,"inputs":[],"expected":[],"why":it.get("why").and_then(|w| w.as_str()).unwrap_or("driver")}),
                        k => json!({"k":k,"line":0,"inputs":[],"expected":[],"why":""}),
                    }
                })
                .collect();
            out.push(json!({"ev":"static_dynamic","run":run,"sseq":sseq,"dseq":dseq}));
        }
    }
    verif::set_seed_override(None);
    out.push(json!({"ev":"end","run":run,"group":0,"variant":0,"load":"ok"}));
    out
}

// ---------------------------------------------------------------------------------------------
// C06 (`changed`): few distinct values on a few inputs, a driver that fails now and then, iteration continued

fn changed_run(prop: &str, run: usize, seed: u64) -> Vec<J> {
    let mut rng = StdRng::seed_from_u64(seed);
    let supplied = vec![Sig::input("A", 1, Val::N(0)), Sig::input("B", 2, Val::N(1)), Sig::bidir("D", 1, Val::Z), Sig::output("Q", 2), Sig::output("r", 1)];
    let header: Vec<String> = ["A", "B", "D", "Q", "V"].iter().map(|s| s.to_string()).collect();
    // V = r + 1: a Z on r makes the row an error item after a successful call
    let mut prog = vec![Stmt::Declare { name: "V".into(), e: Expr::bin("+", Expr::id("r"), Expr::Num(1)) }];
    let mut id = 0;
    let n = rng.gen_range(4..12);
    for _ in 0..n {
        id += 1;
        let a = match rng.gen_range(0..8) {
            0 => Entry::Z,
            1 => Entry::C,
            _ => Entry::Num(rng.gen_range(0..2)),
        };
        let b = Entry::Num(rng.gen_range(0..3));
        let d = if rng.gen_bool(0.3) { Entry::Z } else { Entry::Num(rng.gen_range(0..2)) };
        prog.push(Stmt::Row { id, entries: vec![a, b, d, Entry::X, Entry::X] });
    }
    let test = Test { header, supplied, prog };
    let layout = choose_layout(Lay::Mixed, seed, &mut rng);
    let printed = print_test(&test.header, &test.prog, &layout);
    let opt = Opt { faults: FaultMode::ErrorsOnly(0.7), mode: ValMode::InWidth, p_zx: 0.2, ..Opt::default() };
    let mut spec = policy_for(&test, &opt, seed, &mut rng, 8);
    spec.numeric.clear(); // r may be Z: the virtual signal then fails after the call
    let cfg = RunCfg { run, prop: prop.to_string(), own_write: rng.gen_bool(0.5), max_rows: 60, rng_seed: seed, after_none: 0, cfg_note: json!({"policy": format!("{:?}", spec)}) };
    trace_run(&Prepared { test, printed, layout }, &cfg, make_policy(spec))
}

// ---------------------------------------------------------------------------------------------
// scale: the same behaviours at sizes past the usual machine-word and table boundaries (more than 8 X entries, counters past
// 255, nesting past 8, more than 64 signals / variables / columns, hundreds of lines, draws and calls). The specification is
// the same; only the instances are bigger. `wl` is "scale-<family>[+<family>...]"; run k uses family (k-1) mod n.

fn scale_run(wl: &str, run: usize, seed: u64) -> Vec<J> {
    let fams: Vec<&str> = wl["scale-".len()..].split('+').collect();
    let fam = fams[(run - 1) % fams.len()];
    let variant = (run - 1) / fams.len();
    let mut rng = StdRng::seed_from_u64(seed);
    let mut id = 0usize;
    let mut row = |entries: Vec<Entry>| {
        id += 1;
        Stmt::Row { id, entries }
    };
    let names = |v: &[&str]| -> Vec<String> { v.iter().map(|s| s.to_string()).collect() };
    let mut opt = Opt::default();
    let mut drop_from_layout: Option<String> = None;
    let mut shuffle_layout = false;
    let mut layout = choose_layout(Lay::Mixed, seed, &mut rng);
    let mut max_rows = 400;
    let mut fault: Option<(usize, Fault)> = None;
    let mut rng_seed = seed;
    let (header, supplied, prog): (Vec<String>, Vec<Sig>, Vec<Stmt>) = match fam {
        "manyx" => {
            // 8..10 don't-care inputs in one row (256..1024 assignments), once together with a clock column
            let k = 8 + variant % 3;
            let with_c = k == 8;
            let m = k + 2;
            let mut supplied: Vec<Sig> = (0..m).map(|i| Sig::input(&format!("I{i}"), if i % 4 == 3 { 2 } else { 1 }, Val::N(0))).collect();
            supplied.push(Sig::output("Q", 4));
            supplied.push(Sig::output("R", 1));
            let mut header: Vec<String> = (0..m).map(|i| format!("I{i}")).collect();
            header.shuffle(&mut rng);
            header.insert(rng.gen_range(0..=m), "Q".into());
            let mut cols: Vec<usize> = (0..header.len()).filter(|&c| header[c] != "Q").collect();
            cols.shuffle(&mut rng);
            let mut es: Vec<Entry> = header.iter().map(|h| if h == "Q" { Entry::X } else { Entry::Num(1) }).collect();
            for &c in cols.iter().take(k) {
                es[c] = Entry::X;
            }
            if with_c {
                es[cols[k]] = Entry::C;
            }
            let mut last: Vec<Entry> = header.iter().map(|_| Entry::Num(0)).collect();
            last[header.iter().position(|h| h == "Q").unwrap()] = Entry::Num(3);
            max_rows = 3300;
            (header, supplied, vec![row(es), row(last)])
        }
        "longloop" => {
            // counters and row counts past 255 (and the device called more than 256 times)
            let n = 250 + rng.gen_range(0..120) as i64;
            let supplied = vec![Sig::input("A", 8, Val::N(0)), Sig::input("B", 8, Val::N(0)), Sig::input("S", 24, Val::N(0)), Sig::output("Q", 16)];
            let header = names(&["A", "B", "S", "Q"]);
            let body = if variant % 2 == 0 {
                vec![
                    Stmt::Let { name: "s".into(), e: Expr::bin("+", Expr::id("s"), Expr::id("i")) },
                    row(vec![Entry::Expr(Expr::id("i")), Entry::Expr(Expr::bin(">>", Expr::id("i"), Expr::num(8))), Entry::Expr(Expr::id("s")), Entry::X]),
                ]
            } else {
                vec![Stmt::Loop {
                    var: "j".into(),
                    max: Expr::num(17 + (variant % 3) as i64),
                    body: vec![row(vec![Entry::Expr(Expr::id("i")), Entry::Expr(Expr::id("j")), Entry::Expr(Expr::bin("+", Expr::bin("*", Expr::id("i"), Expr::num(100)), Expr::id("j"))), Entry::X])],
                }]
            };
            let bound = if variant % 2 == 0 { n } else { 17 };
            let prog = vec![
                Stmt::Let { name: "s".into(), e: Expr::num(0) },
                Stmt::Loop { var: "i".into(), max: Expr::num(bound), body },
                row(vec![Entry::Num(1), Entry::Num(2), Entry::Expr(Expr::id("s")), Entry::X]),
            ];
            max_rows = 500;
            (header, supplied, prog)
        }
        "deepnest" => {
            // 7..12 nested loops; the same name rebound at every level, rows on the way in and on the way out
            let d = 7 + variant % 6;
            let supplied = vec![Sig::input("A", 16, Val::N(0)), Sig::input("B", 16, Val::N(0)), Sig::output("Q", 8)];
            let header = names(&["A", "B", "Q"]);
            fn nest(l: usize, d: usize, row: &mut dyn FnMut(Vec<Entry>) -> Stmt) -> Vec<Stmt> {
                let sum = |l: usize| (0..=l).fold(Expr::id("x"), |a, k| Expr::bin("+", a, Expr::bin("<<", Expr::id(&format!("v{k}")), Expr::num(k as i64))));
                let mut body = vec![];
                if l % 2 == 0 {
                    body.push(Stmt::Let { name: "x".into(), e: Expr::bin("+", Expr::id("x"), Expr::num(l as i64 + 1)) });
                }
                body.push(row(vec![Entry::Expr(Expr::id("x")), Entry::Expr(sum(l)), Entry::X]));
                if l + 1 < d {
                    body.extend(nest(l + 1, d, row));
                }
                if l % 3 == 0 {
                    body.push(Stmt::Let { name: format!("y{l}"), e: Expr::id(&format!("v{l}")) });
                }
                body.push(row(vec![Entry::Expr(Expr::id("x")), Entry::Expr(Expr::id(&format!("v{l}"))), Entry::X]));
                vec![Stmt::Loop { var: format!("v{l}"), max: Expr::num(if l < 2 { 2 } else { 1 }), body }]
            }
            let mut prog = vec![Stmt::Let { name: "x".into(), e: Expr::num(100) }];
            prog.extend(nest(0, d, &mut row));
            prog.push(row(vec![Entry::Expr(Expr::id("x")), Entry::Num(0), Entry::X]));
            (header, supplied, prog)
        }
        "manysigs" => {
            // more than 64 signals and columns; header and driver answers in orders of their own
            let n = 66 + variant % 7;
            let mut supplied = vec![];
            for i in 0..n {
                supplied.push(match i % 5 {
                    0 | 1 => Sig::input(&format!("I{i}"), 1 + i % 7, Val::N((i % 2) as i64)),
                    2 | 3 => Sig::output(&format!("O{i}"), 1 + i % 9),
                    _ => Sig::bidir(&format!("D{i}"), 4, if i % 2 == 0 { Val::Z } else { Val::N(5) }),
                });
            }
            supplied.shuffle(&mut rng);
            let mut header = vec![];
            for s in &supplied {
                if rng.gen_bool(0.9) {
                    header.push(s.name.clone());
                }
                if s.dir == Dir::Bidir && rng.gen_bool(0.7) {
                    header.push(format!("{}_out", s.name));
                }
            }
            header.shuffle(&mut rng);
            let mut prog = vec![];
            for r in 0..4 {
                let es: Vec<Entry> = header
                    .iter()
                    .enumerate()
                    .map(|(c, h)| {
                        let sg = supplied.iter().find(|s| &s.name == h);
                        match sg {
                            Some(s) if s.is_in() => {
                                if s.dir == Dir::Bidir && (c + r) % 3 == 0 {
                                    Entry::Z
                                } else if (c + r) % 11 == 0 {
                                    Entry::Num(((c * 7 + r * 3) % 200) as i64)
                                } else {
                                    Entry::Num((c % 2) as i64)
                                }
                            }
                            _ => match (c + r) % 4 {
                                0 => Entry::X,
                                1 => Entry::Z,
                                _ => Entry::Num(((c + r) % 16) as i64),
                            },
                        }
                    })
                    .collect();
                prog.push(row(es));
            }
            opt.layouts = LayoutMode::Subset;
            opt.mode = ValMode::InWidth;
            opt.p_zx = 0.1;
            (header, supplied, prog)
        }
        "manyouts" => {
            // a driver that lists more than 64 outputs, in an order of its own; the header names some that stand late in its answer
            let n = 66 + variant % 8;
            let mut supplied: Vec<Sig> = (0..n).map(|i| Sig::output(&format!("O{i}"), 4 + i % 5)).collect();
            supplied.insert(variant % n, Sig::input("A", 4, Val::N(1)));
            let mut picks: Vec<usize> = (0..n).collect();
            picks.shuffle(&mut rng);
            picks.truncate(8);
            let mut header = names(&["A"]);
            for k in &picks {
                header.push(format!("O{k}"));
            }
            let mut prog = vec![];
            for r in 0..3 {
                let mut es = vec![Entry::Num((r % 2) as i64)];
                for (c, _) in picks.iter().enumerate() {
                    es.push(if (c + r) % 4 == 0 { Entry::X } else { Entry::Num(((c * 3 + r) % 16) as i64) });
                }
                prog.push(row(es));
            }
            opt.layouts = LayoutMode::Full;
            opt.mode = ValMode::InWidth;
            shuffle_layout = true;
            (header, supplied, prog)
        }
        "manymissing" => {
            // a header of more than 64 columns bound to a signal list that lacks one of the names (early, late, or none)
            let n = 66 + variant % 6;
            let header: Vec<String> = (0..n).map(|i| format!("s{i}")).collect();
            let missing = match variant % 4 {
                0 => Some(variant % (n - 64)),
                1 => Some(64 + variant % (n - 64)),
                2 => Some(n - 1),
                _ => None,
            };
            let mut supplied: Vec<Sig> = (0..n).filter(|i| Some(*i) != missing).map(|i| if i % 3 == 2 { Sig::output(&format!("s{i}"), 4) } else { Sig::input(&format!("s{i}"), 4, Val::N(0)) }).collect();
            if variant % 2 == 0 {
                supplied.shuffle(&mut rng);
            }
            let prog = vec![row((0..n).map(|c| Entry::Num((c % 3) as i64)).collect()), row((0..n).map(|c| if c % 3 == 2 { Entry::X } else { Entry::Num(1) }).collect())];
            opt.layouts = LayoutMode::Full;
            opt.mode = ValMode::InWidth;
            (header, supplied, prog)
        }
        "manyreads" => {
            // more than 64 signals; the program reads two outputs whose positions in the signal list are 64 apart; the driver
            // leaves out one of them, the other, or neither: the constructor must refuse exactly when a read output is missing
            let n = 66 + variant % 6;
            let mut supplied: Vec<Sig> = (0..n).map(|i| Sig::output(&format!("O{i}"), 8)).collect();
            let at = variant % 3;
            supplied.insert(if at == 0 { 0 } else if at == 1 { n } else { 40 }, Sig::input("A", 8, Val::N(1)));
            let k = variant % (n - 64);
            let (lo, hi) = (format!("O{k}"), format!("O{}", k + 64));
            let header = names(&["A", "O1"]);
            let prog = vec![
                row(vec![Entry::Expr(Expr::bin("+", Expr::id(&lo), Expr::num(1))), Entry::X]),
                row(vec![Entry::Expr(Expr::bin("&", Expr::id(&hi), Expr::num(15))), Entry::X]),
            ];
            opt.layouts = LayoutMode::Full;
            opt.mode = ValMode::InWidth;
            drop_from_layout = match (variant / 3) % 3 {
                0 => Some(hi),
                1 => Some(lo),
                _ => None,
            };
            (header, supplied, prog)
        }
        "manyvars" => {
            // more than 64 variables in scope, all of them shadowed inside a loop and uncovered after it
            let n = 66 + variant % 9;
            let supplied = vec![Sig::input("A", 32, Val::N(0)), Sig::input("B", 32, Val::N(0)), Sig::output("Q", 8)];
            let header = names(&["A", "B", "Q"]);
            let mut prog = vec![];
            for k in 0..n {
                prog.push(Stmt::Let { name: format!("a{k}"), e: Expr::num((k * 3 + 1) as i64) });
            }
            prog.push(row(vec![Entry::Expr(Expr::bin("+", Expr::id("a0"), Expr::id(&format!("a{}", n - 1)))), Entry::Expr(Expr::id("a33")), Entry::X]));
            let mut body = vec![];
            for k in (0..n).rev() {
                body.push(Stmt::Let { name: format!("a{k}"), e: Expr::bin("+", Expr::bin("*", Expr::id("i"), Expr::num(1000)), Expr::num(k as i64)) });
                if k % 29 == 0 {
                    body.push(row(vec![Entry::Expr(Expr::id(&format!("a{k}"))), Entry::Expr(Expr::id(&format!("a{}", (k + 1) % n))), Entry::X]));
                }
            }
            prog.push(Stmt::Loop { var: "i".into(), max: Expr::num(2), body });
            prog.push(row(vec![Entry::Expr(Expr::id(&format!("a{}", n - 1))), Entry::Expr(Expr::id("a64")), Entry::X]));
            (header, supplied, prog)
        }
        "manylines" => {
            // several hundred blank and comment lines: line numbers past 255
            let supplied = vec![Sig::input("A", 8, Val::N(0)), Sig::output("Q", 8)];
            let header = names(&["A", "Q"]);
            let mut prog = vec![];
            for r in 0..20 {
                prog.push(row(vec![Entry::Num(r), Entry::X]));
            }
            prog.push(Stmt::Loop { var: "i".into(), max: Expr::num(2), body: vec![row(vec![Entry::Expr(Expr::id("i")), Entry::X]), Stmt::Repeat { max: Expr::num(2), id: 9001, entries: vec![Entry::Num(7), Entry::X] }] });
            for r in 0..10 {
                prog.push(row(vec![Entry::Num(r + 30), Entry::Num(r)]));
            }
            layout = Layout { blank_p: 0.9, comment_line_p: 0.88, pre_blank: 30 + variant % 40, crlf: variant % 2 == 1, ..Layout::random(seed) };
            (header, supplied, prog)
        }
        "manydraws" => {
            // several hundred draws, and a restart of the generator after more than 256 of them
            let n = 270 + rng.gen_range(0..60) as i64;
            let supplied = vec![Sig::input("A", 16, Val::N(0)), Sig::input("B", 40, Val::N(0)), Sig::output("Q", 8)];
            let header = names(&["A", "B", "Q"]);
            let draw = |b: i64| Expr::call("random", vec![Expr::num(b)]);
            let prog = vec![
                Stmt::Loop { var: "i".into(), max: Expr::num(n), body: vec![row(vec![Entry::Expr(draw(1000)), Entry::Expr(draw(1 << 39)), Entry::X])] },
                Stmt::Reset,
                Stmt::Loop { var: "i".into(), max: Expr::num(40), body: vec![row(vec![Entry::Expr(draw(1000)), Entry::Expr(draw(1 << 39)), Entry::X])] },
            ];
            rng_seed = seed;
            max_rows = 500;
            (header, supplied, prog)
        }
        "manyvirt" => {
            // a dozen and more virtual signals, declared in an order unlike the header's
            let n = 12 + variant % 9;
            let supplied = vec![Sig::input("A", 8, Val::N(0)), Sig::output("p", 16), Sig::output("q", 16), Sig::bidir("d", 8, Val::Z)];
            let mut header = names(&["A", "p", "q", "d_out"]);
            let mut prog = vec![];
            let mut order: Vec<usize> = (0..n).collect();
            order.shuffle(&mut rng);
            for &k in &order {
                let e = match k % 4 {
                    0 => Expr::bin("+", Expr::id("p"), Expr::num(k as i64)),
                    1 => Expr::bin("*", Expr::id("q"), Expr::num(k as i64 + 1)),
                    2 => Expr::bin("^", Expr::id("p"), Expr::id("q")),
                    _ => Expr::bin("-", Expr::id("d"), Expr::num(k as i64)),
                };
                prog.push(Stmt::Declare { name: format!("V{k}"), e });
                if rng.gen_bool(0.7) {
                    header.push(format!("V{k}"));
                }
            }
            header[1..].shuffle(&mut rng);
            for r in 0..4i64 {
                let es: Vec<Entry> = header.iter().enumerate().map(|(c, h)| if h == "A" { Entry::Num(r) } else if (c as i64 + r) % 3 == 0 { Entry::X } else { Entry::Num(((c as i64) * 5 + r) % 40) }).collect();
                prog.push(row(es));
            }
            opt.layouts = LayoutMode::Subset;
            opt.mode = ValMode::InWidth;
            (header, supplied, prog)
        }
        "latefault" => {
            // a driver error or a layout deviation at a call index past 256
            let n = 300i64;
            let supplied = vec![Sig::input("A", 16, Val::N(0)), Sig::output("p", 8), Sig::output("q", 8)];
            let header = names(&["A", "p", "q"]);
            let prog = vec![Stmt::Loop { var: "i".into(), max: Expr::num(n), body: vec![row(vec![Entry::Expr(Expr::id("i")), Entry::X, Entry::X])] }];
            let at = 250 + rng.gen_range(0..40);
            fault = Some((at, match variant % 4 { 0 => Fault::Error(rng.gen_range(1..1000)), 1 => Fault::Swap, 2 => Fault::Drop, _ => Fault::Duplicate }));
            opt.mode = ValMode::InWidth;
            max_rows = 400;
            (header, supplied, prog)
        }
        "widerow" => {
            // rows of 64 and more columns, produced by bits(64, e) and bits(63, e) next to ordinary entries
            let supplied: Vec<Sig> = (0..66).map(|i| Sig::input(&format!("b{i}"), 1, Val::N(0))).chain(std::iter::once(Sig::output("Q", 8))).collect();
            let mut header: Vec<String> = (0..66).map(|i| format!("b{i}")).collect();
            header.push("Q".into());
            let v = [0x8000_0000_0000_0001u64 as i64, 0x5555_AAAA_F0F0_0F0Fu64 as i64, -2, rng.gen::<i64>()];
            let mut prog = vec![Stmt::Let { name: "w".into(), e: Gen::const_of(v[variant % 4]) }];
            prog.push(row(vec![Entry::Num(1), Entry::Bits(64, Expr::id("w")), Entry::Num(1), Entry::X]));
            prog.push(row(vec![Entry::Bits(63, Expr::id("w")), Entry::Num(0), Entry::Bits(2, Expr::num(2)), Entry::X]));
            prog.push(row(vec![Entry::Bits(33, Expr::bin(">>", Expr::id("w"), Expr::num(3))), Entry::Bits(33, Expr::id("w")), Entry::X]));
            (header, supplied, prog)
        }
        "longfeedback" => {
            // the value read back is the latest one also after several hundred rows
            let n = 260 + rng.gen_range(0..60) as i64;
            let supplied = vec![Sig::input("A", 16, Val::N(0)), Sig::input("K", 1, Val::N(0)), Sig::output("p", 12), Sig::output("q", 12)];
            let header = names(&["A", "K", "p"]);
            let prog = vec![
                Stmt::Loop { var: "i".into(), max: Expr::num(n), body: vec![row(vec![Entry::Expr(Expr::bin("+", Expr::id("p"), Expr::id("q"))), if variant % 2 == 0 { Entry::C } else { Entry::Num(0) }, Entry::X])] },
                row(vec![Entry::Expr(Expr::id("q")), Entry::Num(1), Entry::X]),
            ];
            opt.mode = ValMode::InWidth;
            max_rows = 1100;
            (header, supplied, prog)
        }
        "noout" | "emptylayout" | "noin" | "emptyfault" => {
            // degenerate shapes: a device without outputs, a driver that reports nothing, a device without inputs
            let mut supplied = vec![];
            if fam != "noin" {
                supplied.push(Sig::input("A", 4, Val::N(1)));
                supplied.push(Sig::input("K", 1, Val::N(0)));
                supplied.push(if variant % 2 == 0 { Sig::input("B", 8, Val::Z) } else { Sig::input("B", 8, Val::N(200)) });
            }
            if fam != "noout" {
                supplied.push(Sig::output("p", 4));
                supplied.push(Sig::output("q", 8));
            }
            supplied.shuffle(&mut rng);
            let mut header: Vec<String> = supplied.iter().filter(|_| rng.gen_bool(0.85)).map(|s| s.name.clone()).collect();
            if header.is_empty() {
                header.push(supplied[0].name.clone());
            }
            header.shuffle(&mut rng);
            let mut prog = vec![];
            let mk = |r: i64, rng: &mut StdRng| -> Vec<Entry> {
                header
                    .iter()
                    .map(|h| match h.as_str() {
                        "A" => if rng.gen_bool(0.2) { Entry::X } else { Entry::Num(r % 16) },
                        "K" => if rng.gen_bool(0.5) { Entry::C } else { Entry::Num(r % 2) },
                        "B" => if rng.gen_bool(0.3) { Entry::Z } else { Entry::Expr(Expr::bin("*", Expr::num(r), Expr::num(3))) },
                        _ => match rng.gen_range(0..3) { 0 => Entry::X, 1 => Entry::Z, _ => Entry::Num(r % 4) },
                    })
                    .collect()
            };
            for r in 0..3 {
                let es = mk(r, &mut rng);
                prog.push(row(es));
            }
            let es = mk(5, &mut rng);
            prog.push(Stmt::Loop { var: "i".into(), max: Expr::num(2), body: vec![row(es)] });
            // every other variant: a virtual signal that reads nothing (it has a value even when the driver reports nothing),
            // with or without a column of its own
            if variant % 2 == 1 {
                prog.insert(rng.gen_range(0..=prog.len()), Stmt::Declare { name: "VK".into(), e: Expr::bin("+", Expr::num(5), Expr::num(variant as i64)) });
                if rng.gen_bool(0.5) {
                    header.push("VK".into());
                    fn add_col(stmts: &mut [Stmt], v: i64) {
                        for s in stmts {
                            match s {
                                Stmt::Row { entries, .. } => entries.push(if v % 3 == 0 { Entry::X } else { Entry::Num(5 + v) }),
                                Stmt::Loop { body, .. } | Stmt::While { body, .. } => add_col(body, v),
                                _ => {}
                            }
                        }
                    }
                    add_col(&mut prog, variant as i64);
                }
            }
            opt.mode = ValMode::InWidth;
            opt.p_zx = 0.2;
            (header, supplied, prog)
        }
        f => panic!("no scale family {f}"),
    };
    let test = Test { header, supplied, prog };
    let printed = print_test(&test.header, &test.prog, &layout);
    let mut spec = policy_for(&test, &opt, seed, &mut rng, 6);
    if fam == "emptylayout" || fam == "emptyfault" {
        spec.layout.clear();
    }
    if shuffle_layout {
        spec.layout.shuffle(&mut rng);
    }
    if let Some(name) = &drop_from_layout {
        let table: Vec<&Sig> = test.supplied.iter().filter(|s| s.is_out()).collect();
        spec.layout.retain(|j| &table[*j].name != name);
    }
    if fam == "emptyfault" {
        // a driver that reports nothing at first and deviates from that later (one more output, an error)
        let at = 1 + variant % 4;
        spec.fault = Some((at, match variant % 3 { 0 => Fault::Add, 1 => Fault::Error(7 + variant as u32), _ => Fault::Add }));
    }
    if fam == "manysigs" || fam == "manyvirt" || fam == "latefault" || fam == "longfeedback" {
        spec.mode = opt.mode;
        if fam == "longfeedback" {
            spec.numeric.clear();
        }
    }
    if fault.is_some() {
        spec.fault = fault;
    }
    let cfg = RunCfg { run, prop: wl.to_string(), own_write: rng.gen_bool(0.5), max_rows, rng_seed, after_none: 0, cfg_note: json!({"family": fam, "variant": variant}) };
    trace_run(&Prepared { test, printed, layout }, &cfg, make_policy(spec))
}
