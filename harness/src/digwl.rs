//! .dig documents: rendering circuit descriptions as XML, replaying MC_Dig behaviours, the corruption sweep,
//! tests loaded through dig::File (generated ones for C19, the repository's fixtures for C16/C01).

use crate::driver::*;
use crate::gen::*;
use crate::model::*;
use crate::printer::*;
use crate::run::*;
use digital_test_runner::{dig, ParsedTestCase, SignalType};
use rand::rngs::StdRng;
use rand::{Rng, SeedableRng};
use serde_json::{json, Value as J};
use std::str::FromStr;

pub fn xml_escape(s: &str) -> String {
    // (a literal CR would be normalised away by any XML reader; written as a character reference it is part of the text)
    s.replace('&', "&amp;").replace('<', "&lt;").replace('>', "&gt;").replace('"', "&quot;").replace('\r', "&#xd;")
}

pub struct Pin {
    pub kind: String,
    pub label: Option<String>,
    pub bits: Option<usize>,
    /// None: no InDefault entry
    pub def: Option<Val>,
}

pub struct TestDesc {
    pub label: Option<String>,
    pub source: String,
}

fn unrelated(rng: &mut StdRng) -> String {
    match rng.gen_range(0..6) {
        // a test component that was placed but never edited: no test data (it contributes no test, and the tests after it are
        // still there)
        4 => "    <visualElement>\n      <elementName>Testcase</elementName>\n      <elementAttributes/>\n      <pos x=\"5\" y=\"5\"/>\n    </visualElement>\n".into(),
        5 => "    <visualElement>\n      <elementName>Testcase</elementName>\n      <elementAttributes>\n        <entry>\n          <string>Label</string>\n          <string>unedited</string>\n        </entry>\n      </elementAttributes>\n      <pos x=\"6\" y=\"6\"/>\n    </visualElement>\n".into(),
        0 => "    <visualElement>\n      <elementName>Add</elementName>\n      <elementAttributes>\n        <entry>\n          <string>Bits</string>\n          <int>4</int>\n        </entry>\n      </elementAttributes>\n      <pos x=\"400\" y=\"240\"/>\n    </visualElement>\n".into(),
        1 => "    <visualElement>\n      <elementName>Const</elementName>\n      <elementAttributes>\n        <entry>\n          <string>Label</string>\n          <string>NotAPin</string>\n        </entry>\n      </elementAttributes>\n      <pos x=\"0\" y=\"0\"/>\n    </visualElement>\n".into(),
        2 => "    <visualElement>\n      <elementName>Text</elementName>\n      <elementAttributes/>\n      <pos x=\"1\" y=\"2\"/>\n    </visualElement>\n".into(),
        _ => "    <!-- a comment with <visualElement> inside -->\n".into(),
    }
}

pub fn render_dig(pins: &[Pin], tests: &[TestDesc], seed: u64) -> String {
    let mut rng = StdRng::seed_from_u64(seed);
    let mut s = String::from("<?xml version=\"1.0\" encoding=\"utf-8\"?>\n<circuit>\n  <version>2</version>\n  <attributes/>\n  <visualElements>\n");
    // pins and tests keep their relative document order, but are interleaved with each other and with other elements
    let mut pi = 0;
    let mut ti = 0;
    while pi < pins.len() || ti < tests.len() {
        if rng.gen_bool(0.3) {
            s.push_str(&unrelated(&mut rng));
        }
        let take_pin = ti >= tests.len() || (pi < pins.len() && rng.gen_bool(0.6));
        if take_pin {
            let p = &pins[pi];
            pi += 1;
            s.push_str(&format!("    <visualElement>\n      <elementName>{}</elementName>\n      <elementAttributes>\n", xml_escape(&p.kind)));
            let mut entries: Vec<String> = vec![];
            if let Some(l) = &p.label {
                entries.push(format!("        <entry>\n          <string>Label</string>\n          <string>{}</string>\n        </entry>\n", xml_escape(l)));
            }
            if let Some(b) = p.bits {
                entries.push(format!("        <entry>\n          <string>Bits</string>\n          <int>{b}</int>\n        </entry>\n"));
            }
            match p.def {
                Some(Val::N(n)) => entries.push(format!("        <entry>\n          <string>InDefault</string>\n          <value v=\"{n}\" z=\"false\"/>\n        </entry>\n")),
                Some(_) => entries.push("        <entry>\n          <string>InDefault</string>\n          <value v=\"0\" z=\"true\"/>\n        </entry>\n".into()),
                None => {}
            }
            if rng.gen_bool(0.3) {
                entries.push("        <entry>\n          <string>rotation</string>\n          <rotation rotation=\"2\"/>\n        </entry>\n".into());
            }
            if rng.gen_bool(0.5) {
                entries.reverse();
            }
            for e in entries {
                s.push_str(&e);
            }
            s.push_str("      </elementAttributes>\n      <pos x=\"100\" y=\"200\"/>\n    </visualElement>\n");
        } else {
            let t = &tests[ti];
            ti += 1;
            s.push_str("    <visualElement>\n      <elementName>Testcase</elementName>\n      <elementAttributes>\n");
            let label = t.label.as_ref().map(|l| format!("        <entry>\n          <string>Label</string>\n          <string>{}</string>\n        </entry>\n", xml_escape(l)));
            let data = format!("        <entry>\n          <string>Testdata</string>\n          <testData>\n            <dataString>{}</dataString>\n          </testData>\n        </entry>\n", xml_escape(&t.source));
            if rng.gen_bool(0.5) {
                if let Some(l) = &label {
                    s.push_str(l);
                }
                s.push_str(&data);
            } else {
                s.push_str(&data);
                if let Some(l) = &label {
                    s.push_str(l);
                }
            }
            s.push_str("      </elementAttributes>\n      <pos x=\"300\" y=\"20\"/>\n    </visualElement>\n");
        }
    }
    s.push_str("  </visualElements>\n  <wires>\n    <wire>\n      <p1 x=\"1\" y=\"2\"/>\n      <p2 x=\"3\" y=\"4\"/>\n    </wire>\n  </wires>\n  <measurementOrdering/>\n</circuit>\n");
    s
}

pub fn real_sig(s: &digital_test_runner::Signal) -> Sig {
    match &s.typ {
        SignalType::Input { default } => Sig { name: s.name.clone(), bits: s.bits, dir: Dir::In, def: ival(*default), vexpr: None },
        SignalType::Output => Sig { name: s.name.clone(), bits: s.bits, dir: Dir::Out, def: Val::X, vexpr: None },
        SignalType::Bidirectional { default } => Sig { name: s.name.clone(), bits: s.bits, dir: Dir::Bidir, def: ival(*default), vexpr: None },
        SignalType::Virtual { .. } => Sig { name: s.name.clone(), bits: s.bits, dir: Dir::Virt, def: Val::X, vexpr: None },
    }
}

/// Replay MC_Dig behaviours through dig::File::parse / load_test / load_test_by_name; then the corruption sweep.
pub fn replay_dig_file(path: &str, seed: u64) -> J {
    let text = std::fs::read_to_string(path).expect("read behaviours");
    let mut n = 0usize;
    let mut nontrivial = 0usize;
    let mut mismatches: Vec<J> = vec![];
    let mut samples = vec![];
    let mut corrupted = 0usize;
    for (i, line) in text.lines().enumerate() {
        if line.trim().is_empty() {
            continue;
        }
        let b0: J = serde_json::from_str(line).expect("behaviour JSON");
        n += 1;
      // The model's labels are abstract (A, B, t, u): DigParse does not look inside them apart from the `_out` suffix, so every
      // injective renaming is a behaviour too. Each behaviour is replayed under the identity and under renamings that use the
      // words the file format itself is made of (attribute keys, element names, tag names).
      for renaming in 0..RENAMINGS.len() {
        let b = rename_behaviour(&b0, renaming);
        let pins: Vec<Pin> = b["pins"]
            .as_array()
            .unwrap()
            .iter()
            .map(|p| Pin {
                kind: p["kind"].as_str().unwrap().into(),
                label: p["label"].as_str().filter(|l| !l.is_empty()).map(|l| l.to_string()),
                bits: p["bits"].as_u64().filter(|b| *b != 0).map(|b| b as usize),
                def: if p["def"]["t"] == "none" { None } else { Some(Val::from_spec(&p["def"])) },
            })
            .collect();
        let tests: Vec<TestDesc> = b["tests"]
            .as_array()
            .unwrap()
            .iter()
            .map(|t| {
                let header: Vec<&str> = t["header"].as_array().unwrap().iter().map(|h| h.as_str().unwrap()).collect();
                let source = if t["hok"].as_bool().unwrap() {
                    // (kept verbatim: CR LF line ends and a non-ASCII comment in some of them)
                    let nl = if (i + renaming) % 3 == 1 { "\r\n" } else { "\n" };
                    // (every fifth document: all its tests begin with the same line - a blank or a white-space-only one - before
                    // their headers, which differ)
                    let lead = match (i + 2 * renaming) % 10 { 3 => nl.to_string(), 8 => format!(" \t{nl}{nl}"), _ => String::new() };
                    format!("{lead}{}{nl}{}{nl}# source {}{}{nl}", header.join(" "), vec!["1"; header.len()].join(" "), t["src"], if i % 4 == 2 { " é" } else { "" })
                } else {
                    "A B".to_string()
                };
                TestDesc { label: if t["labelled"].as_bool().unwrap() { Some(t["label"].as_str().unwrap().to_string()) } else { None }, source }
            })
            .collect();
        let xml = render_dig(&pins, &tests, seed.wrapping_add(i as u64));
        *crate::WATCH_TEXT.lock().unwrap() = xml.clone();
        if pins.len() + tests.len() >= 3 {
            nontrivial += 1;
        }
        let mut mm = |code: &str, exp: J, obs: J| {
            if mismatches.len() < 300 {
                mismatches.push(json!({"behaviour": i + 1, "code": code, "step": 0, "text": xml, "expected": exp, "observed": obs, "line": line}));
            }
        };
        let want_ok = b["ok"].as_bool().unwrap();
        // the three public ways into the loader: File::parse, FromStr, File::open (through a scratch file next to the behaviours)
        let parsed = match (i + renaming) % 6 {
            4 => guarded(|| xml.parse::<dig::File>()),
            5 => {
                let tmp = format!("{path}.{}.dig", std::process::id());
                std::fs::write(&tmp, &xml).expect("scratch .dig file");
                let r = guarded(|| dig::File::open(&tmp));
                let _ = std::fs::remove_file(&tmp);
                r
            }
            _ => guarded(|| dig::File::parse(&xml)),
        };
        match parsed {
            Err(p) => mm("panic", json!(want_ok), json!(p)),
            Ok(Err(e)) => {
                if want_ok {
                    mm("dig.verdict", json!("file"), json!(format!("{e:?}")));
                }
            }
            Ok(Ok(file)) => {
                if !want_ok {
                    // tolerated: a file is returned but at least one of its tests cannot be loaded
                    let any_fail = (0..file.test_cases.len()).any(|k| guarded(|| file.load_test(k)).map(|r| r.is_err()).unwrap_or(true));
                    if !any_fail {
                        mm("dig.verdict", json!("error"), json!("a file all of whose tests load"));
                    }
                    continue;
                }
                if samples.len() < 2 && pins.len() >= 2 && !tests.is_empty() {
                    samples.push(json!({"xml": xml, "signals": file.signals.iter().map(|s| format!("{s}")).collect::<Vec<_>>()}));
                }
                // signals as a multiset (their order is not part of the property)
                let mut got: Vec<Sig> = file.signals.iter().map(real_sig).collect();
                let mut want: Vec<Sig> = b["signals"].as_array().unwrap().iter().map(Sig::from_spec).collect();
                let key = |s: &Sig| (s.name.clone(), s.bits, format!("{:?}{:?}", s.dir, s.def));
                got.sort_by_key(key);
                want.sort_by_key(key);
                if got != want {
                    mm("dig.signals", json!(want.iter().map(|s| s.to_spec()).collect::<Vec<_>>()), json!(got.iter().map(|s| s.to_spec()).collect::<Vec<_>>()));
                    continue;
                }
                let names: Vec<String> = b["names"].as_array().unwrap().iter().map(|x| x.as_str().unwrap().to_string()).collect();
                let got_names: Vec<String> = file.test_cases.iter().map(|t| t.name.clone()).collect();
                let got_src: Vec<String> = file.test_cases.iter().map(|t| t.source.clone()).collect();
                let want_src: Vec<String> = tests.iter().map(|t| t.source.clone()).collect();
                if names != got_names || got_src != want_src {
                    mm("dig.tests", json!({"names": names, "sources": want_src}), json!({"names": got_names, "sources": got_src}));
                    continue;
                }
                let loads: Vec<bool> = b["loads"].as_array().unwrap().iter().map(|x| x.as_bool().unwrap()).collect();
                for (k, want_load) in loads.iter().enumerate() {
                    let r = guarded(|| file.load_test(k));
                    match r {
                        Err(p) => {
                            mm("panic", json!(want_load), json!(p));
                            break;
                        }
                        Ok(r) => {
                            if r.is_ok() != *want_load {
                                mm("dig.load", json!(want_load), json!(r.is_ok()));
                                break;
                            }
                            // load_test(i) = parse source i and bind it to the file's signals
                            let direct = ParsedTestCase::from_str(&file.test_cases[k].source).ok().and_then(|p| p.with_signals(file.signals.clone()).ok());
                            if r.as_ref().ok() != direct.as_ref() {
                                mm("dig.loadeq", json!("load_test(i) == from_str(source i).with_signals(signals)"), json!(k));
                                break;
                            }
                            // by name: the first test with that label
                            let first = got_names.iter().position(|nm| nm == &got_names[k]).unwrap();
                            let by_name = guarded(|| file.load_test_by_name(&got_names[k]));
                            let first_r = file.load_test(first);
                            if by_name.as_ref().map(|x| x.as_ref().ok()).ok().flatten() != first_r.as_ref().ok() {
                                mm("dig.byname", json!(first), json!(k));
                                break;
                            }
                        }
                    }
                }
                let oob = guarded(|| file.load_test(file.test_cases.len()).is_err() && file.load_test(usize::MAX).is_err() && file.load_test_by_name("no such test").is_err());
                if oob != Ok(true) {
                    mm("dig.bounds", json!("errors"), json!(format!("{oob:?}")));
                }
            }
        }
        // corruption sweep on a sample of the documents: any text gives a file or an error, never a panic
        if i % 23 == 0 && renaming == (i / 23) % RENAMINGS.len() {
            let cuts: Vec<usize> = xml.char_indices().filter(|(_, c)| *c == '<' || *c == '>').map(|(p, _)| p).collect();
            for (ci, cut) in cuts.iter().enumerate() {
                if ci % 3 != (i / 23) % 3 {
                    continue;
                }
                let variants = [
                    xml[..*cut].to_string(),
                    format!("{}{}", &xml[..*cut], &xml[(*cut + 1).min(xml.len())..]),
                    format!("{}<{}", &xml[..*cut], &xml[*cut..]),
                    xml.replacen("<string>Label</string>", "<string>Label</string><string>Label</string>", 1 + ci % 2),
                ];
                for v in variants.iter() {
                    corrupted += 1;
                    let r = guarded(|| dig::File::parse(v).map(|f| (0..f.test_cases.len()).map(|k| f.load_test(k).is_ok()).count()));
                    if let Err(p) = r {
                        if mismatches.len() < 300 {
                            mismatches.push(json!({"behaviour": i + 1, "code": "panic", "step": 1, "text": v, "expected": "file or error", "observed": p, "line": line}));
                        }
                    }
                }
            }
        }
      }
    }
    json!({"behaviours": n, "distinct_nontrivial": nontrivial, "mismatches": mismatches, "samples": samples, "n_corrupted_documents": corrupted,
           "renamings_per_behaviour": RENAMINGS.len()})
}

/// label renamings: (A, B, t, u) -> ...; `<x>_out` follows `<x>`
const RENAMINGS: [[&str; 4]; 6] = [
    ["A", "B", "t", "u"],
    // characters that some definitions of white space include, but not the header's (space, tab, CR, FF, LF): part of the name
    ["A\u{a0}x", "\u{2003}B", "t\u{3000}t", "u\u{2028}"],
    ["bus_out_en", "B_outer", "t_out", "u"],
    ["Bits", "Label", "Testdata", "Label"],
    ["InDefault", "Testdata", "Bits", "In"],
    ["Out", "Clock", "Testcase", "dataString"],
];

fn rename_label(s: &str, k: usize) -> String {
    let r = &RENAMINGS[k];
    let one = |x: &str| -> Option<&str> {
        match x {
            "A" => Some(r[0]),
            "B" => Some(r[1]),
            "t" => Some(r[2]),
            "u" => Some(r[3]),
            _ => None,
        }
    };
    if let Some(n) = one(s) {
        return n.to_string();
    }
    if let Some(base) = s.strip_suffix("_out") {
        if let Some(n) = one(base) {
            return format!("{n}_out");
        }
    }
    s.to_string()
}

/// pins and signals are renamed with the pin names, test labels with the test names; the explicit width is instantiated
fn rename_behaviour(b: &J, k: usize) -> J {
    if k == 0 {
        return b.clone();
    }
    let mut b = b.clone();
    let ren = |v: &mut J| {
        if let Some(s) = v.as_str() {
            *v = json!(rename_label(s, k));
        }
    };
    // the model's one explicit width (4) stands for any width: DigParse only copies it
    let width = [4u64, 2, 8, 64, 63, 17][k];
    let rew = |v: &mut J| {
        if v.as_u64() == Some(4) {
            *v = json!(width);
        }
    };
    for p in b["pins"].as_array_mut().unwrap() {
        ren(&mut p["label"]);
        rew(&mut p["bits"]);
    }
    for t in b["tests"].as_array_mut().unwrap() {
        ren(&mut t["label"]);
        for h in t["header"].as_array_mut().unwrap() {
            ren(h);
        }
    }
    if let Some(a) = b["signals"].as_array_mut() {
        for sg in a {
            ren(&mut sg["name"]);
            rew(&mut sg["bits"]);
        }
    }
    if let Some(a) = b["names"].as_array_mut() {
        for nm in a {
            ren(nm);
        }
    }
    b
}

// ---------------------------------------------------------------------------------------------
// iterator traces of tests loaded through dig::File

fn iterate_loaded(tc: &digital_test_runner::TestCase, table: Vec<digital_test_runner::Signal>, cfg: &RunCfg, policy: Policy, out: &mut Vec<J>) {
    let (core, log) = Core::new(table.clone(), policy);
    if cfg.own_write {
        let mut d = DrvW(core);
        iterate_pub(tc, &mut d, &log, &table, cfg, 1, out);
    } else {
        let mut d = Drv(core);
        iterate_pub(tc, &mut d, &log, &table, cfg, 1, out);
    }
}

/// C19 (and C16): a generated program with blank lines in front, stored in a .dig document, loaded with load_test:
/// the rows' lines count from the start of the test's own source text.
pub fn dig_loaded_run(prop: &str, run: usize, seed: u64) -> Vec<J> {
    // (no virtual-signal columns: a .dig test whose header names one of its own virtual signals does not load at all,
    // which is outside the given properties, see DESIGN section 8)
    let mut g = Gen::new(seed, Knobs { max_virtuals: 0, p_c: 0.05, p_x: 0.05, max_stmts: 12, ..Knobs::control_flow() });
    let plan = g.plan();
    let prog = g.program(&plan);
    let layout = Layout { pre_blank: g.rng.gen_range(0..4), ..Layout::random(seed) };
    let printed = print_test(&plan.header, &prog, &layout);
    let pins: Vec<Pin> = plan
        .supplied
        .iter()
        .map(|s| Pin { kind: if s.is_in() { if s.bits == 1 && s.name == "P" { "Clock".into() } else { "In".into() } } else { "Out".into() }, label: Some(s.name.clone()), bits: if s.bits == 1 { None } else { Some(s.bits) }, def: if s.is_in() { Some(s.def) } else { None } })
        .collect();
    let other = TestDesc { label: Some("other".into()), source: format!("{}\n{}\n", plan.header.join(" "), vec!["0"; plan.header.len()].join(" ")) };
    let mine = TestDesc { label: Some("mine".into()), source: printed.text.clone() };
    let tests = if g.rng.gen_bool(0.5) { vec![other, mine] } else { vec![mine, other] };
    let idx = tests.iter().position(|t| t.label.as_deref() == Some("mine")).unwrap();
    let xml = render_dig(&pins, &tests, seed);
    *crate::WATCH_TEXT.lock().unwrap() = xml.clone();
    let mut out = vec![];
    let file = guarded(|| dig::File::parse(&xml));
    let cfg = RunCfg { run, prop: prop.to_string(), own_write: g.rng.gen_bool(0.5), max_rows: 40, rng_seed: seed, after_none: 0, cfg_note: json!({"dig": true}) };
    let (tc, load_kind, msg, supplied) = match file {
        Err(p) => (None, "panic", p, vec![]),
        Ok(Err(e)) => (None, "parse", format!("{e:?}"), vec![]),
        Ok(Ok(f)) => {
            let supplied: Vec<Sig> = f.signals.iter().map(real_sig).collect();
            match guarded(|| if g.rng.gen_bool(0.5) { f.load_test(idx) } else { f.load_test_by_name("mine") }) {
                Err(p) => (None, "panic", p, supplied),
                Ok(Err(e)) => (None, "bind", format!("{e:?}"), supplied),
                Ok(Ok(tc)) => (Some(tc), "ok", String::new(), supplied),
            }
        }
    };
    let test = Test { header: plan.header.clone(), supplied, prog };
    let observed = tc.as_ref().map(observed_signals).unwrap_or_default();
    out.push(json!({"ev":"begin","run":cfg.run,"prop":cfg.prop,"load":load_kind,"load_msg":msg,
        "test":test_to_spec(&test, &printed, &observed),"own_write":cfg.own_write,"cfg":cfg.cfg_note,
        "text":printed.text,"rng_seed":cfg.rng_seed.to_string()}));
    if let Some(tc) = tc {
        let table = driver_table(&test);
        let n_out = table.len() - 1;
        iterate_loaded(&tc, table, &cfg, policy_small(seed, n_out), &mut out);
    }
    out.push(json!({"ev":"end","run":cfg.run,"group":0,"variant":0,"load":"ok"}));
    out
}

pub fn policy_small(seed: u64, n_signals: usize) -> Policy {
    Box::new(move |idx, _kind, _inputs| Answer::Ok((0..n_signals).map(|j| (j, Val::N(((idx as u64 * 7 + j as u64 * 3 + seed) % 6) as i64))).collect()))
}

/// The repository's own .dig fixtures: every test is loaded, compared with parse + bind, and run against a scripted
/// driver; the trace is validated against the specification instantiated from the crate's AST dump.
pub fn fixture_runs(prop: &str, seed: u64) -> Vec<J> {
    let mut out = vec![];
    let mut run = 0;
    let dir = "/repo/tests/data";
    let mut files: Vec<String> = std::fs::read_dir(dir).map(|d| d.filter_map(|e| e.ok()).map(|e| e.path().to_string_lossy().to_string()).filter(|p| p.ends_with(".dig")).collect()).unwrap_or_default();
    files.sort();
    for path in files {
        let Ok(Ok(file)) = guarded(|| dig::File::open(&path)) else { continue };
        for k in 0..file.test_cases.len() {
            run += 1;
            let src = file.test_cases[k].source.clone();
            *crate::WATCH_TEXT.lock().unwrap() = src.clone();
            let cfg = RunCfg { run, prop: prop.to_string(), own_write: (seed + run as u64) % 2 == 0, max_rows: 120, rng_seed: seed, after_none: 0, cfg_note: json!({"fixture": path, "test": file.test_cases[k].name}) };
            let supplied: Vec<Sig> = file.signals.iter().map(real_sig).collect();
            let loaded = guarded(|| file.load_test(k));
            let parsed = guarded(|| ParsedTestCase::from_str(&src));
            let (tc, load_kind, msg) = match loaded {
                Err(p) => (None, "panic", p),
                Ok(Err(e)) => (None, if matches!(parsed, Ok(Ok(_))) { "bind" } else { "parse" }, format!("{e:?}")),
                Ok(Ok(tc)) => (Some(tc), "ok", String::new()),
            };
            // the program and header as the crate parsed them (no independent ground truth for fixtures)
            let (header, prog, decls) = match &parsed {
                Ok(Ok(p)) => {
                    let d: J = serde_json::from_str(&p.verif_dump()).unwrap();
                    (
                        d["signals"].clone(),
                        dump_stmts_to_spec(&d["stmts"]),
                        d["virtuals"].as_array().unwrap().iter().map(|v| json!({"name": v["name"], "e": Expr::from_dump(&v["e"]).to_spec()})).collect::<Vec<_>>(),
                    )
                }
                _ => (json!([]), vec![], vec![]),
            };
            if !matches!(parsed, Ok(Ok(_))) {
                continue;
            }
            let observed = tc.as_ref().map(observed_signals).unwrap_or_default();
            out.push(json!({"ev":"begin","run":cfg.run,"prop":cfg.prop,"load":load_kind,"load_msg":msg,
                "test":{"header":header,"supplied":supplied.iter().map(|s| s.to_spec()).collect::<Vec<_>>(),
                        "observed":observed.iter().map(|s| s.to_spec()).collect::<Vec<_>>(),"decls":decls,"prog":prog},
                "own_write":cfg.own_write,"cfg":cfg.cfg_note,"text":src,"rng_seed":cfg.rng_seed.to_string()}));
            if let Some(tc) = tc {
                let mut table: Vec<digital_test_runner::Signal> = file.signals.iter().filter(|s| s.is_output()).cloned().collect();
                table.push(digital_test_runner::Signal::output("__foreign", 1));
                let n_out = table.len() - 1;
                let widths: Vec<usize> = table.iter().map(|s| s.bits).collect();
                let spec = PolicySpec { seed: seed.wrapping_add(run as u64), layout: (0..n_out).collect(), widths, mode: ValMode::InWidth, numeric: vec![], p_zx: 0.0, zx_all: false, fault: None, foreign: n_out };
                iterate_loaded(&tc, table, &cfg, make_policy(spec), &mut out);
            }
            out.push(json!({"ev":"end","run":cfg.run,"group":0,"variant":0,"load":"ok"}));
        }
    }
    out
}
