//! Conformance harness binding the TLA+ specification in /verif/spec to the real crate in /repo.
//!
//! Subcommands (see bin/check):
//!   tracegen --prop <id> --seed <n> --runs <n> --out <file>     impl -> spec: record traces of the real crate
//!   replay   --prop <id> --in <file> --out <file>               spec -> impl: replay behaviours printed by TLC

mod driver;
mod gen;
mod model;
mod printer;
mod run;
mod workloads;

use std::collections::HashMap;
use std::io::Write;

fn args() -> (String, HashMap<String, String>) {
    let mut a = std::env::args().skip(1);
    let cmd = a.next().unwrap_or_default();
    let mut m = HashMap::new();
    while let Some(k) = a.next() {
        let v = a.next().unwrap_or_default();
        m.insert(k.trim_start_matches("--").to_string(), v);
    }
    (cmd, m)
}

/// A run of the real crate that does not come back is a tool error (exit 2), reported with the offending text.
pub static WATCHDOG: std::sync::atomic::AtomicU64 = std::sync::atomic::AtomicU64::new(0);
pub static WATCH_TEXT: std::sync::Mutex<String> = std::sync::Mutex::new(String::new());

fn start_watchdog() {
    std::thread::spawn(|| {
        let mut last = 0;
        let mut since = std::time::Instant::now();
        loop {
            std::thread::sleep(std::time::Duration::from_millis(500));
            let now = WATCHDOG.load(std::sync::atomic::Ordering::Relaxed);
            if now != last {
                last = now;
                since = std::time::Instant::now();
            } else if now != 0 && since.elapsed().as_secs() > 60 {
                eprintln!("HANG: a call into the crate did not return within 60 s; input:\n{}", WATCH_TEXT.lock().unwrap());
                std::process::exit(2);
            }
        }
    });
}

fn main() {
    run::install_panic_hook();
    start_watchdog();
    let (cmd, m) = args();
    let get = |k: &str, d: &str| m.get(k).cloned().unwrap_or_else(|| d.to_string());
    match cmd.as_str() {
        "tracegen" => {
            let prop = get("prop", "C01");
            let seed: u64 = get("seed", "1").parse().expect("seed");
            let runs: usize = get("runs", "100").parse().expect("runs");
            let out = get("out", "/dev/stdout");
            let lines = workloads::tracegen(&prop, seed, runs);
            let mut f = std::io::BufWriter::new(std::fs::File::create(&out).expect("create output"));
            for l in &lines {
                writeln!(f, "{}", l).unwrap();
            }
            f.flush().unwrap();
            eprintln!("tracegen: prop={prop} seed={seed} runs={runs} lines={}", lines.len());
        }
        _ => {
            eprintln!("unknown command {cmd:?}");
            std::process::exit(2);
        }
    }
}
