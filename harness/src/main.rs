//! Conformance harness binding the TLA+ specification in /verif/spec to the real crate in /repo.
//!
//! Subcommands (see bin/check):
//!   tracegen --prop <id> --seed <n> --runs <n> --out <file>     impl -> spec: record traces of the real crate
//!   replay   --prop <id> --in <file> --out <file>               spec -> impl: replay behaviours printed by TLC

mod digwl;
mod driver;
mod gen;
mod model;
mod parse_wl;
mod printer;
mod replay;
mod run;
mod workloads;

use std::collections::HashMap;
use std::io::Write;

fn args() -> (String, HashMap<String, String>) {
    let mut a = std::env::args().skip(1);
    let cmd = a.next().unwrap_or_default();
    let mut m = HashMap::new();
    while let Some(k) = a.next() {
        let v = a.next().unwrap_or_default();
        m.insert(k.trim_start_matches("--").to_string(), v);
    }
    (cmd, m)
}

/// A call into the real crate that does not come back is reported with the offending text (exit code 3, which
/// bin/check turns into a violation). The watchdog counts the CPU time this process burns while one and the same
/// guarded call is open, not wall-clock time: a machine under load can stall a process for a long time, but a call that
/// has consumed 15 s of CPU without returning is spinning. (Outside guarded calls only a far larger budget applies.)
pub static WATCHDOG: std::sync::atomic::AtomicU64 = std::sync::atomic::AtomicU64::new(0);
pub static IN_CALL: std::sync::atomic::AtomicI64 = std::sync::atomic::AtomicI64::new(0);
/// the next iterators are created the ordinary way, seeded from the operating system (no seed override of the hooks)
pub static OS_ENTROPY: std::sync::atomic::AtomicBool = std::sync::atomic::AtomicBool::new(false);
pub static WATCH_TEXT: std::sync::Mutex<String> = std::sync::Mutex::new(String::new());
pub static HANG_FILE: std::sync::Mutex<String> = std::sync::Mutex::new(String::new());

/// user + system CPU time of this process in seconds (from /proc/self/stat; clock ticks are 100 per second on Linux)
fn cpu_seconds() -> f64 {
    let stat = std::fs::read_to_string("/proc/self/stat").unwrap_or_default();
    // the fields after the parenthesised command name; utime and stime are the 14th and 15th fields of the line
    let rest = stat.rsplit(')').next().unwrap_or("");
    let f: Vec<&str> = rest.split_whitespace().collect();
    let ticks = |i: usize| f.get(i).and_then(|x| x.parse::<f64>().ok()).unwrap_or(0.0);
    (ticks(11) + ticks(12)) / 100.0
}

fn start_watchdog() {
    std::thread::spawn(|| {
        let mut last = 0;
        let mut since_cpu = cpu_seconds();
        loop {
            std::thread::sleep(std::time::Duration::from_millis(500));
            let now = WATCHDOG.load(std::sync::atomic::Ordering::Relaxed);
            let open = IN_CALL.load(std::sync::atomic::Ordering::Relaxed) > 0;
            let cpu = cpu_seconds();
            if now != last {
                last = now;
                since_cpu = cpu;
            } else if now != 0 && ((open && cpu - since_cpu > 15.0) || cpu - since_cpu > 900.0) {
                let text = WATCH_TEXT.lock().unwrap().clone();
                eprintln!("HANG: a call into the crate did not return within 15 s of CPU time; input:\n{text}");
                let f = HANG_FILE.lock().unwrap().clone();
                if !f.is_empty() {
                    let _ = std::fs::write(&f, serde_json::json!({"hang": text}).to_string());
                }
                // exit code 3: the crate under test hangs on this input (reported as a violation by bin/check)
                std::process::exit(3);
            }
        }
    });
}

/// What a trace file covers: runs, rows, panics, distinct non-trivial cases (>= 2 rows, distinct by source text and
/// configuration), and a few samples.
fn trace_stats(lines: &[serde_json::Value]) -> serde_json::Value {
    use std::collections::HashSet;
    use std::hash::{Hash, Hasher};
    let mut runs = 0usize;
    let mut rows = 0usize;
    let mut errs = 0usize;
    let mut panics = 0usize;
    let mut distinct: HashSet<u64> = HashSet::new();
    let mut samples = vec![];
    let mut cur_key = 0u64;
    let mut cur_rows = 0usize;
    let mut cur_text = String::new();
    for l in lines {
        match l["ev"].as_str().unwrap_or("") {
            "begin" => {
                runs += 1;
                cur_rows = 0;
                cur_text = l["text"].as_str().unwrap_or("").to_string();
                let mut h = std::collections::hash_map::DefaultHasher::new();
                cur_text.hash(&mut h);
                l["test"]["supplied"].to_string().hash(&mut h);
                l["cfg"].to_string().hash(&mut h);
                cur_key = h.finish();
            }
            "end" => {
                if cur_rows >= 2 {
                    if distinct.insert(cur_key) && samples.len() < 3 {
                        samples.push(serde_json::json!({"text": cur_text, "rows": cur_rows}));
                    }
                }
            }
            _ => {
                let k = l["item"]["k"].as_str().or(l["res"]["k"].as_str()).unwrap_or("");
                match k {
                    "row" => {
                        rows += 1;
                        cur_rows += 1;
                    }
                    "err" | "driver" | "runtime" => errs += 1,
                    "panic" => panics += 1,
                    _ => {}
                }
            }
        }
    }
    serde_json::json!({"runs": runs, "rows": rows, "error_items": errs, "panics": panics, "distinct_nontrivial": distinct.len(), "samples": samples})
}

fn main() {
    run::install_panic_hook();
    start_watchdog();
    let (cmd, m) = args();
    let get = |k: &str, d: &str| m.get(k).cloned().unwrap_or_else(|| d.to_string());
    *HANG_FILE.lock().unwrap() = format!("{}.hang.json", get("out", "/tmp/dtr-verif"));
    match cmd.as_str() {
        "tracegen" => {
            let prop = get("prop", "C01");
            let seed: u64 = get("seed", "1").parse().expect("seed");
            let runs: usize = get("runs", "100").parse().expect("runs");
            let out = get("out", "/dev/stdout");
            let only: Option<usize> = m.get("only").and_then(|o| o.parse().ok());
            let lines = workloads::tracegen_only(&prop, seed, runs, only);
            let mut f = std::io::BufWriter::new(std::fs::File::create(&out).expect("create output"));
            for l in &lines {
                writeln!(f, "{}", l).unwrap();
            }
            f.flush().unwrap();
            let stats = trace_stats(&lines);
            std::fs::write(format!("{out}.stats.json"), serde_json::to_string(&stats).unwrap()).expect("write stats");
            eprintln!("tracegen: prop={prop} seed={seed} runs={runs} lines={}", lines.len());
        }
        "parsegen" => {
            let prop = get("prop", "C09");
            let seed: u64 = get("seed", "1").parse().expect("seed");
            let runs: usize = get("runs", "100").parse().expect("runs");
            let out = get("out", "/dev/stdout");
            let lines = parse_wl::parsegen(&prop, seed, runs);
            let mut f = std::io::BufWriter::new(std::fs::File::create(&out).expect("create output"));
            let mut distinct = std::collections::HashSet::new();
            let (mut ok, mut err, mut panics) = (0, 0, 0);
            let mut samples = vec![];
            for l in &lines {
                writeln!(f, "{}", l).unwrap();
                match l["res"].as_str().unwrap_or("") {
                    "ok" => ok += 1,
                    "err" => err += 1,
                    _ => panics += 1,
                }
                if l["cs"].as_array().map(|a| a.len()).unwrap_or(0) > 8 && distinct.insert(l["text"].as_str().unwrap_or("").to_string()) && samples.len() < 3 && l["note"] != "fixed" {
                    samples.push(serde_json::json!({"text": l["text"], "res": l["res"], "note": l["note"]}));
                }
            }
            f.flush().unwrap();
            let stats = serde_json::json!({"runs": lines.len(), "accepted": ok, "rejected": err, "panics": panics, "distinct_nontrivial": distinct.len(), "samples": samples});
            std::fs::write(format!("{out}.stats.json"), stats.to_string()).expect("write stats");
            eprintln!("parsegen: prop={prop} seed={seed} cases={} ok={ok} err={err} panics={panics}", lines.len());
        }
        "parse-one" => {
            // record one from_str call on the text in --text-file (replaying a recorded parse violation)
            let text = std::fs::read_to_string(get("text-file", "/dev/stdin")).expect("read text");
            let rec = parse_wl::record(1, &get("prop", "C09"), &text, None, 0, "replay");
            std::fs::write(get("out", "/dev/stdout"), format!("{rec}\n")).expect("write");
        }
        "corpus" => {
            let seed: u64 = get("seed", "1").parse().expect("seed");
            let n: usize = get("n", "30").parse().expect("n");
            let lines = parse_wl::corpus(seed, n);
            let mut f = std::io::BufWriter::new(std::fs::File::create(get("out", "/dev/stdout")).expect("create output"));
            for l in &lines {
                writeln!(f, "{}", l).unwrap();
            }
            f.flush().unwrap();
        }
        "tokens" => {
            // debugging aid: print the crate's token stream for a text given on the command line
            let text = get("text", "").replace("\\n", "\n").replace("\\t", "\t").replace("\\r", "\r");
            let skip = get("header", "false") == "true";
            println!("{:?}", digital_test_runner::verif::tokens(&text, skip));
        }
        "replay" => {
            let seed: u64 = get("seed", "1").parse().expect("seed");
            let summary = match get("kind", "interp").as_str() {
                "lex" => replay::replay_lex_file(&get("in", "/dev/stdin")),
                "parse" => replay::replay_parse_file(&get("in", "/dev/stdin")),
                "verdict" => replay::replay_verdict_file(&get("in", "/dev/stdin")),
                "dig" => digwl::replay_dig_file(&get("in", "/dev/stdin"), seed),
                "sched" => replay::replay_sched_file(&get("in", "/dev/stdin")),
                "expr" => replay::replay_expr_file(&get("in", "/dev/stdin")),
                _ => replay::replay_file(&get("in", "/dev/stdin"), seed),
            };
            std::fs::write(get("out", "/dev/stdout"), serde_json::to_string(&summary).unwrap()).expect("write summary");
            eprintln!("replay: behaviours={} mismatches={}", summary["behaviours"], summary["mismatches"].as_array().map(|a| a.len()).unwrap_or(0));
        }
        _ => {
            eprintln!("unknown command {cmd:?}");
            std::process::exit(2);
        }
    }
}
