//! Run the real crate on a generated test and record one trace line per public call.

use crate::driver::*;
use crate::model::*;
use crate::printer::*;
use digital_test_runner::errors::IterationError;
use digital_test_runner::{verif, DataRow, ExpectedValue, InputValue, OutputValue, ParsedTestCase, Signal, SignalType, TestCase, TestDriver};
use serde_json::{json, Value as J};
use std::cell::RefCell;
use std::panic::{catch_unwind, AssertUnwindSafe};
use std::str::FromStr;

thread_local! {
    pub static LAST_PANIC: RefCell<Option<String>> = const { RefCell::new(None) };
    /// panics of this thread are expected data (a probe thread): not reported as harness panics
    pub static QUIET_THREAD: std::cell::Cell<bool> = const { std::cell::Cell::new(false) };
}

pub fn install_panic_hook() {
    std::panic::set_hook(Box::new(|info| {
        let loc = info.location().map(|l| format!("{}:{}", l.file(), l.line())).unwrap_or_default();
        let msg = if let Some(s) = info.payload().downcast_ref::<&str>() {
            s.to_string()
        } else if let Some(s) = info.payload().downcast_ref::<String>() {
            s.clone()
        } else {
            "?".to_string()
        };
        if crate::IN_CALL.load(std::sync::atomic::Ordering::Relaxed) == 0 && !QUIET_THREAD.with(|q| q.get()) {
            // not inside a guarded call into the crate: the harness itself gives up (a tool error, never a verdict)
            eprintln!("HARNESS-PANIC {loc}: {msg}");
            if std::env::var("VERIF_BACKTRACE").is_ok() {
                eprintln!("{}", std::backtrace::Backtrace::force_capture());
            }
        }
        LAST_PANIC.with(|p| *p.borrow_mut() = Some(format!("{loc}: {msg}")));
    }));
}

pub fn take_panic() -> String {
    LAST_PANIC.with(|p| p.borrow_mut().take()).unwrap_or_default()
}

pub fn guarded<T>(f: impl FnOnce() -> T) -> Result<T, String> {
    crate::WATCHDOG.fetch_add(1, std::sync::atomic::Ordering::Relaxed);
    crate::IN_CALL.fetch_add(1, std::sync::atomic::Ordering::Relaxed);
    let r = catch_unwind(AssertUnwindSafe(f));
    crate::IN_CALL.fetch_sub(1, std::sync::atomic::Ordering::Relaxed);
    r.map_err(|_| take_panic())
}

pub fn ival(v: InputValue) -> Val {
    match v {
        InputValue::Value(n) => Val::N(n),
        InputValue::Z => Val::Z,
    }
}
pub fn oval(v: OutputValue) -> Val {
    match v {
        OutputValue::Value(n) => Val::N(n),
        OutputValue::Z => Val::Z,
        OutputValue::X => Val::X,
    }
}
pub fn eval_(v: ExpectedValue) -> Val {
    match v {
        ExpectedValue::Value(n) => Val::N(n),
        ExpectedValue::Z => Val::Z,
        ExpectedValue::X => Val::X,
    }
}

/// The observed signal list of a real test case, in the harness's model (virtual expressions via the dump hook).
pub fn observed_signals(tc: &TestCase) -> Vec<Sig> {
    let dump: J = serde_json::from_str(&tc.verif_dump()).expect("dump is JSON");
    tc.signals
        .iter()
        .zip(dump["signals"].as_array().unwrap())
        .map(|(s, d)| match &s.typ {
            SignalType::Input { default } => Sig { name: s.name.clone(), bits: s.bits, dir: Dir::In, def: ival(*default), vexpr: None },
            SignalType::Output => Sig { name: s.name.clone(), bits: s.bits, dir: Dir::Out, def: Val::X, vexpr: None },
            SignalType::Bidirectional { default } => Sig { name: s.name.clone(), bits: s.bits, dir: Dir::Bidir, def: ival(*default), vexpr: None },
            SignalType::Virtual { .. } => Sig { name: s.name.clone(), bits: s.bits, dir: Dir::Virt, def: Val::X, vexpr: Some(Expr::from_dump(&d["vexpr"])) },
        })
        .collect()
}

pub enum Loaded {
    Ok(TestCase),
    ParseErr(String),
    BindErr(String),
    Panic(String),
}

pub fn load(text: &str, supplied: &[Sig]) -> Loaded {
    let parsed = match guarded(|| ParsedTestCase::from_str(text)) {
        Err(p) => return Loaded::Panic(p),
        Ok(Err(e)) => return Loaded::ParseErr(format!("{e:?}")),
        Ok(Ok(p)) => p,
    };
    let sigs: Vec<Signal> = supplied.iter().map(|s| s.to_real()).collect();
    match guarded(move || parsed.with_signals(sigs)) {
        Err(p) => Loaded::Panic(p),
        Ok(Err(e)) => Loaded::BindErr(format!("{e:?}")),
        Ok(Ok(tc)) => Loaded::Ok(tc),
    }
}

/// the reason of a runtime error in the specification's vocabulary (from the error's Debug text)
pub fn runtime_why(dbg: &str) -> &'static str {
    for (variant, why) in [
        ("DivisionByZero", "div0"),
        ("UnassignedVariable", "unbound"),
        ("UnexpectedValueForSignal", "signal"),
        ("EmptyRandomRange", "range"),
        ("FunctionNotImplemented", "unimpl"),
        ("WrongNumberOfOutputs", "count"),
        ("WrongOutputOrder", "order"),
        ("MissingOutputs", "missing"),
    ] {
        if dbg.contains(variant) {
            return why;
        }
    }
    "other"
}

/// which check of the binder refused the test (from the error's Debug text); "" if it was not a bind error
pub fn load_class(msg: &str) -> &'static str {
    if !msg.starts_with("bind_err") {
        ""
    } else if msg.contains("DuplicateSignal") {
        "dup"
    } else if msg.contains("SignalIsVirtual") {
        "virtual"
    } else if msg.contains("UnknownSignals") {
        "unknown"
    } else if msg.contains("NotAnInput") {
        "notinput"
    } else if msg.contains("NotAnOutput") || msg.contains("UnknownVariableOrSignal") {
        "notoutput"
    } else {
        "other"
    }
}

pub fn row_to_spec(row: &DataRow<'_>) -> J {
    json!({
        "k": "row",
        "line": row.line,
        "inputs": row.inputs.iter().map(|i| json!({"s": i.signal.name, "v": ival(i.value).to_spec(), "ch": i.changed})).collect::<Vec<_>>(),
        "outputs": row.outputs.iter().map(|o| json!({"s": o.signal.name, "out": oval(o.output).to_spec(), "exp": eval_(o.expected).to_spec(),
            "check": o.check(), "is_checked": o.is_checked()})).collect::<Vec<_>>(),
        "failing": row.failing_outputs().map(|o| o.signal.name.clone()).collect::<Vec<_>>(),
    })
}

pub fn rng_to_spec() -> Vec<J> {
    verif::take_rng_log()
        .into_iter()
        .map(|e| match e {
            verif::RngEvent::Draw { bound, value } => json!({"r": false, "b": limbs(bound), "v": limbs(value)}),
            verif::RngEvent::Reset => json!({"r": true, "b": limbs(0), "v": limbs(0)}),
        })
        .collect()
}

pub struct RunCfg {
    pub run: usize,
    pub prop: String,
    pub own_write: bool,
    pub max_rows: usize,
    pub rng_seed: u64,
    /// call next() this many more times after it has returned None
    pub after_none: usize,
    /// free-form description of the configuration (driver policy, ...), recorded in the begin line
    pub cfg_note: J,
}

/// layout group of a run (C20): runs of one group are the same test printed in different layouts, against the same driver
pub fn group_of(cfg: &RunCfg) -> (u64, u64) {
    (cfg.cfg_note.get("group").and_then(|g| g.as_u64()).unwrap_or(0), cfg.cfg_note.get("variant").and_then(|g| g.as_u64()).unwrap_or(0))
}

/// Everything about a run that is decided before it starts.
pub struct Prepared {
    pub test: Test,
    pub printed: Printed,
    pub layout: Layout,
}

pub fn test_to_spec(test: &Test, printed: &Printed, observed: &[Sig]) -> J {
    let line_of = |id: usize| *printed.line_of.get(&id).expect("row id printed");
    json!({
        "header": test.header,
        "supplied": test.supplied.iter().map(|s| s.to_spec()).collect::<Vec<_>>(),
        "observed": observed.iter().map(|s| s.to_spec()).collect::<Vec<_>>(),
        "decls": test.decls().iter().map(|(n, e)| json!({"name": n, "e": e.to_spec()})).collect::<Vec<_>>(),
        "prog": stmts_to_spec(&test.prog, &line_of),
    })
}

/// Driver table for a test: every output-capable supplied signal, then `extra` foreign signals (used by fault plans).
pub fn driver_table(test: &Test) -> Vec<Signal> {
    let mut t: Vec<Signal> = test.supplied.iter().filter(|s| s.is_out()).map(|s| s.to_real()).collect();
    t.push(Signal::output("__foreign", 1));
    t
}

pub fn iterate_pub<D: TestDriver<Error = DrvErr>>(
    tc: &TestCase,
    drv: &mut D,
    log: &std::rc::Rc<RefCell<Log>>,
    table: &[Signal],
    cfg: &RunCfg,
    it_id: usize,
    out: &mut Vec<J>,
) {
    // (C17: every other run of its workload takes the crate's ordinary path - a seed from the operating system; the draws are
    // logged either way, and whether `resetRandom` replays them is a predicate on that log alone)
    verif::set_seed_override(if crate::OS_ENTROPY.load(std::sync::atomic::Ordering::Relaxed) { None } else { Some(cfg.rng_seed) });
    let _ = verif::take_rng_log();
    // the deprecated alias is part of the public API: every fifth run enters through it
    #[allow(deprecated)]
    let res = if cfg.run % 5 == 4 { guarded(|| tc.run_iter(drv)) } else { guarded(|| tc.try_iter(drv)) };
    let (calls, answer) = {
        let mut l = log.borrow_mut();
        let calls: Vec<J> = l.calls.drain(..).map(|c| call_to_spec(&c)).collect();
        let ans = l.answers.drain(..).last();
        (calls, answer_to_spec(ans.as_ref(), table))
    };
    let mut it = match res {
        Err(p) => {
            out.push(json!({"ev":"try_iter","run":cfg.run,"it":it_id,"calls":calls,"answer":answer,"res":{"k":"panic","id":0,"msg":p}}));
            return;
        }
        Ok(Err(IterationError::Driver(DrvErr(id)))) => {
            out.push(json!({"ev":"try_iter","run":cfg.run,"it":it_id,"calls":calls,"answer":answer,"res":{"k":"driver","id":id}}));
            return;
        }
        Ok(Err(IterationError::Runtime(e))) => {
            out.push(json!({"ev":"try_iter","run":cfg.run,"it":it_id,"calls":calls,"answer":answer,"res":{"k":"runtime","id":0,"msg":format!("{e}")}}));
            return;
        }
        Ok(Ok(it)) => {
            out.push(json!({"ev":"try_iter","run":cfg.run,"it":it_id,"calls":calls,"answer":answer,"res":{"k":"ok","id":0}}));
            it
        }
    };
    let mut extra = cfg.after_none;
    let mut nrows = 0;
    // the iteration is continued past error items (an iterator of Results invites that), but not for ever:
    // a failing while-condition yields the same error again and again
    let mut nerrs = 0;
    while nrows < cfg.max_rows {
        let item = guarded(|| it.next());
        if matches!(item, Ok(Some(Ok(_)))) {
            nrows += 1;
        }
        let rng = rng_to_spec();
        let (calls, answer) = {
            let mut l = log.borrow_mut();
            let calls: Vec<J> = l.calls.drain(..).map(|c| call_to_spec(&c)).collect();
            let ans = l.answers.drain(..).last();
            (calls, answer_to_spec(ans.as_ref(), table))
        };
        let mut stop = false;
        let item_j = match &item {
            Err(p) => {
                stop = true;
                json!({"k":"panic","msg":p})
            }
            Ok(None) => {
                if extra == 0 {
                    stop = true;
                } else {
                    extra -= 1;
                }
                json!({"k":"none"})
            }
            Ok(Some(Err(IterationError::Driver(DrvErr(id))))) => {
                nerrs += 1;
                stop = nerrs >= 3;
                json!({"k":"err","class":"driver","id":id,"why":"driver"})
            }
            Ok(Some(Err(IterationError::Runtime(e)))) => {
                nerrs += 1;
                stop = nerrs >= 3;
                json!({"k":"err","class":"runtime","id":0,"msg":format!("{e}"),"why":runtime_why(&format!("{e:?}"))})
            }
            Ok(Some(Ok(row))) => row_to_spec(row),
        };
        let vars_j: Vec<J> = if item.is_ok() {
            let mut v: Vec<(String, i64)> = guarded(|| it.vars()).unwrap_or_default().into_iter().collect();
            v.sort();
            v.into_iter().map(|(n, v)| json!({"n": n, "v": limbs(v)})).collect()
        } else {
            vec![]
        };
        out.push(json!({"ev":"next","run":cfg.run,"it":it_id,"rng":rng,"calls":calls,"answer":answer,"item":item_j,"vars":vars_j}));
        if stop {
            break;
        }
    }
    verif::set_seed_override(None);
}

/// Trace one run of `prep` against a driver answering by `policy`. Returns the NDJSON lines.
pub fn trace_run(prep: &Prepared, cfg: &RunCfg, policy: Policy) -> Vec<J> {
    let mut out = vec![];
    *crate::WATCH_TEXT.lock().unwrap() = prep.printed.text.clone();
    let loaded = load(&prep.printed.text, &prep.test.supplied);
    let (tc, load_kind, load_res) = match loaded {
        Loaded::Ok(tc) => (Some(tc), "ok", json!("ok")),
        Loaded::ParseErr(e) => (None, "parse", json!(format!("parse_err: {e}"))),
        Loaded::BindErr(e) => (None, "bind", json!(format!("bind_err: {e}"))),
        Loaded::Panic(p) => (None, "panic", json!(format!("panic: {p}"))),
    };
    let observed = tc.as_ref().map(observed_signals).unwrap_or_default();
    out.push(json!({"ev":"begin","run":cfg.run,"prop":cfg.prop,"load":load_kind,"load_class":load_class(load_res.as_str().unwrap_or("")),"load_msg":load_res,
        "test":test_to_spec(&prep.test, &prep.printed, &observed),"own_write":cfg.own_write,"cfg":cfg.cfg_note,
        "text":prep.printed.text,"rng_seed":cfg.rng_seed.to_string()}));
    if let Some(tc) = tc {
        let table = driver_table(&prep.test);
        let (core, log) = Core::new(table.clone(), policy);
        if cfg.own_write {
            let mut d = DrvW(core);
            iterate_pub(&tc, &mut d, &log, &table, cfg, 1, &mut out);
        } else {
            let mut d = Drv(core);
            iterate_pub(&tc, &mut d, &log, &table, cfg, 1, &mut out);
        }
    }
    let (group, variant) = group_of(cfg);
    out.push(json!({"ev":"end","run":cfg.run,"group":group,"variant":variant,"load":load_kind}));
    out
}
