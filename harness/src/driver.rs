//! Scripted, recording test drivers.
//!
//! A driver answers from a policy (a function of the call index and the inputs it received) and logs every
//! trait-method entry with the full input vector. Two flavours exist because overriding `write_input` is a static
//! property of a type: `Drv` relies on the trait's default `write_input`, `DrvW` overrides it.

use crate::model::*;
use digital_test_runner::{InputEntry, InputValue, OutputEntry, OutputValue, Signal, TestDriver};
use serde_json::{json, Value as J};
use std::cell::RefCell;
use std::rc::Rc;

#[derive(Debug, Clone, PartialEq, Eq)]
pub enum Answer {
    /// (index into the driver's signal table, value)
    Ok(Vec<(usize, Val)>),
    Err(u32),
}

#[derive(Debug)]
pub struct DrvErr(pub u32);
impl std::fmt::Display for DrvErr {
    fn fmt(&self, f: &mut std::fmt::Formatter<'_>) -> std::fmt::Result {
        write!(f, "scripted driver error #{}", self.0)
    }
}
impl std::error::Error for DrvErr {}

#[derive(Debug, Clone)]
pub struct CallRec {
    pub kind: &'static str,
    pub inputs: Vec<(String, Val, bool)>,
}

#[derive(Default)]
pub struct Log {
    pub calls: Vec<CallRec>,
    pub answers: Vec<Answer>,
    pub total_calls: usize,
}

pub type Policy = Box<dyn FnMut(usize, &'static str, &[(String, Val, bool)]) -> Answer>;

pub struct Core {
    /// every signal this driver can report, as real `Signal`s (the crate compares them by value)
    pub table: Vec<Signal>,
    pub policy: Policy,
    pub log: Rc<RefCell<Log>>,
}

impl Core {
    pub fn new(table: Vec<Signal>, policy: Policy) -> (Core, Rc<RefCell<Log>>) {
        let log = Rc::new(RefCell::new(Log::default()));
        (Core { table, policy, log: log.clone() }, log)
    }
    fn record(&mut self, kind: &'static str, inputs: &[InputEntry<'_>]) -> Answer {
        let rec: Vec<(String, Val, bool)> = inputs
            .iter()
            .map(|i| {
                (
                    i.signal.name.clone(),
                    match i.value {
                        InputValue::Value(n) => Val::N(n),
                        InputValue::Z => Val::Z,
                    },
                    i.changed,
                )
            })
            .collect();
        let idx = self.log.borrow().total_calls;
        let ans = (self.policy)(idx, kind, &rec);
        let mut log = self.log.borrow_mut();
        log.total_calls += 1;
        log.calls.push(CallRec { kind, inputs: rec });
        log.answers.push(ans.clone());
        ans
    }
    fn read(&mut self, inputs: &[InputEntry<'_>]) -> Result<Vec<OutputEntry<'_>>, DrvErr> {
        match self.record("read", inputs) {
            Answer::Err(id) => Err(DrvErr(id)),
            Answer::Ok(list) => Ok(list
                .into_iter()
                .map(|(i, v)| OutputEntry {
                    signal: &self.table[i],
                    value: match v {
                        Val::N(n) => OutputValue::Value(n),
                        Val::Z => OutputValue::Z,
                        Val::X => OutputValue::X,
                    },
                })
                .collect()),
        }
    }
    fn write(&mut self, inputs: &[InputEntry<'_>]) -> Result<(), DrvErr> {
        match self.record("write", inputs) {
            Answer::Err(id) => Err(DrvErr(id)),
            Answer::Ok(_) => Ok(()),
        }
    }
}

/// relies on the default `write_input`
pub struct Drv(pub Core);
/// overrides `write_input`
pub struct DrvW(pub Core);

impl TestDriver for Drv {
    type Error = DrvErr;
    fn write_input_and_read_output(&mut self, inputs: &[InputEntry<'_>]) -> Result<Vec<OutputEntry<'_>>, DrvErr> {
        self.0.read(inputs)
    }
}

impl TestDriver for DrvW {
    type Error = DrvErr;
    fn write_input_and_read_output(&mut self, inputs: &[InputEntry<'_>]) -> Result<Vec<OutputEntry<'_>>, DrvErr> {
        self.0.read(inputs)
    }
    fn write_input(&mut self, inputs: &[InputEntry<'_>]) -> Result<(), DrvErr> {
        self.0.write(inputs)
    }
}

pub fn call_to_spec(c: &CallRec) -> J {
    json!({"kind": c.kind, "inputs": c.inputs.iter().map(|(s, v, ch)| json!({"s":s,"v":v.to_spec(),"ch":ch})).collect::<Vec<_>>()})
}

pub fn answer_to_spec(a: Option<&Answer>, table: &[Signal]) -> J {
    match a {
        None => json!({"k":"none","outs":[]}),
        Some(Answer::Err(id)) => json!({"k":"err","id":id,"outs":[]}),
        Some(Answer::Ok(list)) => json!({"k":"ok","outs":list.iter().map(|(i, v)| json!({"s":table[*i].name,"v":v.to_spec()})).collect::<Vec<_>>()}),
    }
}
