//! spec -> impl: replay behaviours printed by TLC (one JSON object per line) through the real crate and compare
//! every event with the specification's prediction.

use crate::driver::*;
use crate::model::*;
use crate::printer::*;
use crate::run::*;
use digital_test_runner::errors::IterationError;
use digital_test_runner::{Signal, TestCase, TestDriver};
use rand::rngs::StdRng;
use rand::{Rng, SeedableRng};
use serde_json::{json, Value as J};
use std::collections::HashMap;

pub struct Mismatch {
    pub code: String,
    pub step: usize,
    pub expected: J,
    pub observed: J,
}

fn sv_list(j: &J) -> Vec<(String, Val)> {
    j.as_array().map(|a| a.iter().map(|e| (e["s"].as_str().unwrap().to_string(), Val::from_spec(&e["v"]))).collect()).unwrap_or_default()
}

fn answers(script: &J, table: &[Signal]) -> Vec<Answer> {
    script
        .as_array()
        .map(|a| {
            a.iter()
                .map(|ans| {
                    if ans["k"] == "err" {
                        Answer::Err(ans["id"].as_u64().unwrap() as u32)
                    } else {
                        Answer::Ok(
                            ans["outs"]
                                .as_array()
                                .map(|o| {
                                    o.iter()
                                        .map(|e| {
                                            let name = e["s"].as_str().unwrap();
                                            let idx = table.iter().position(|s| s.name == name).unwrap_or_else(|| panic!("script names unknown signal {name}"));
                                            (idx, Val::from_spec(&e["v"]))
                                        })
                                        .collect()
                                })
                                .unwrap_or_default(),
                        )
                    }
                })
                .collect()
        })
        .unwrap_or_default()
}

fn drain_calls(log: &std::rc::Rc<std::cell::RefCell<Log>>) -> Vec<CallRec> {
    let mut l = log.borrow_mut();
    l.answers.clear();
    l.calls.drain(..).collect()
}

fn cmp_calls(code: &str, step: usize, predicted: &[&J], observed: &[CallRec], out: &mut Vec<Mismatch>) -> bool {
    let obs_j: Vec<J> = observed.iter().map(call_to_spec).collect();
    if predicted.len() != observed.len() {
        out.push(Mismatch { code: code.to_string(), step, expected: json!(predicted), observed: json!(obs_j) });
        return false;
    }
    for (p, o) in predicted.iter().zip(observed) {
        // the constructor's call is C02's business whatever is wrong with it
        let ctor = code == "proto.ctor";
        if p["kind"].as_str().unwrap() != o.kind {
            out.push(Mismatch { code: if ctor { "proto.ctor".into() } else { "call.kind".into() }, step, expected: json!(p), observed: call_to_spec(o) });
            return false;
        }
        let pi = sv_list(&p["inputs"]);
        let oi: Vec<(String, Val)> = o.inputs.iter().map(|(s, v, _)| (s.clone(), *v)).collect();
        if pi != oi {
            out.push(Mismatch { code: if ctor { "proto.ctor".into() } else { "row.inputs".into() }, step, expected: json!(p), observed: call_to_spec(o) });
            return false;
        }
    }
    true
}

fn iterate<D: TestDriver<Error = DrvErr>>(
    tc: &TestCase,
    drv: &mut D,
    log: &std::rc::Rc<std::cell::RefCell<Log>>,
    b: &J,
    line_of: &HashMap<usize, usize>,
    out: &mut Vec<Mismatch>,
) {
    let pcalls: Vec<&J> = b["calls"].as_array().map(|a| a.iter().collect()).unwrap_or_default();
    let items: Vec<&J> = b["items"].as_array().map(|a| a.iter().collect()).unwrap_or_default();
    let ctor_expected = b.get("ctor").and_then(|c| c.as_str()).unwrap_or("ok");
    let res = guarded(|| tc.try_iter(drv));
    let calls = drain_calls(log);
    if !cmp_calls("proto.ctor", 0, &pcalls[..pcalls.len().min(1)], &calls, out) {
        return;
    }
    let mut it = match res {
        Err(p) => {
            out.push(Mismatch { code: "panic".into(), step: 0, expected: json!(ctor_expected), observed: json!(p) });
            return;
        }
        Ok(Err(e)) => {
            let got = match e {
                IterationError::Driver(_) => "driver",
                IterationError::Runtime(_) => "runtime",
            };
            if got != ctor_expected {
                out.push(Mismatch { code: "ctor.res".into(), step: 0, expected: json!(ctor_expected), observed: json!(got) });
            }
            return;
        }
        Ok(Ok(it)) => {
            if ctor_expected != "ok" {
                out.push(Mismatch { code: "ctor.res".into(), step: 0, expected: json!(ctor_expected), observed: json!("ok") });
                return;
            }
            it
        }
    };
    let mut next_call = 1;
    for (k, item) in items.iter().enumerate() {
        let step = k + 1;
        let got = guarded(|| it.next());
        let calls = drain_calls(log);
        let kind = item["k"].as_str().unwrap();
        // the driver calls the specification predicts for this step (field nc of the item)
        let nc = item["nc"].as_u64().unwrap_or(if kind == "row" { 1 } else { 0 }) as usize;
        let predicted_calls: Vec<&J> = pcalls[next_call.min(pcalls.len())..(next_call + nc).min(pcalls.len())].to_vec();
        next_call += predicted_calls.len();
        match got {
            Err(p) => {
                out.push(Mismatch { code: "panic".into(), step, expected: (*item).clone(), observed: json!(p) });
                return;
            }
            Ok(None) => {
                if kind != "none" {
                    out.push(Mismatch { code: "item.kind".into(), step, expected: (*item).clone(), observed: json!({"k":"none"}) });
                    return;
                }
                if !cmp_calls("proto.item", step, &predicted_calls, &calls, out) {
                    return;
                }
            }
            Ok(Some(Err(e))) => {
                let (class, id) = match &e {
                    IterationError::Driver(DrvErr(id)) => ("driver", *id),
                    IterationError::Runtime(_) => ("runtime", 0),
                };
                if kind != "err" {
                    out.push(Mismatch { code: "item.kind".into(), step, expected: (*item).clone(), observed: json!({"k":"err","class":class,"msg":format!("{e:?}")}) });
                    return;
                }
                if item["class"].as_str().unwrap() != class {
                    out.push(Mismatch { code: "item.class".into(), step, expected: (*item).clone(), observed: json!({"k":"err","class":class}) });
                    return;
                }
                if class == "driver" && item["id"].as_u64().unwrap() as u32 != id {
                    out.push(Mismatch { code: "fault.identity".into(), step, expected: (*item).clone(), observed: json!({"k":"err","class":class,"id":id}) });
                    return;
                }
                if !cmp_calls("proto.item", step, &predicted_calls, &calls, out) {
                    return;
                }
                return;
            }
            Ok(Some(Ok(row))) => {
                let obs = row_to_spec(&row);
                if kind != "row" {
                    out.push(Mismatch { code: "item.kind".into(), step, expected: (*item).clone(), observed: obs });
                    return;
                }
                if !cmp_calls("proto.item", step, &predicted_calls, &calls, out) {
                    return;
                }
                let want_line = *line_of.get(&(item["line"].as_u64().unwrap() as usize)).unwrap_or(&0);
                if row.line != want_line {
                    out.push(Mismatch { code: "row.line".into(), step, expected: json!(want_line), observed: json!(row.line) });
                    return;
                }
                let pi = sv_list(&item["inputs"]);
                let oi: Vec<(String, Val)> = row.inputs.iter().map(|i| (i.signal.name.clone(), ival(i.value))).collect();
                if pi != oi {
                    // which kind of entry differs first: the shape of the vector, the default of an input the header omits, or a value from the program
                    let header: Vec<&str> = b["header"].as_array().map(|a| a.iter().filter_map(|h| h.as_str()).collect()).unwrap_or_default();
                    let code = if pi.len() != oi.len() || pi.iter().zip(&oi).any(|(p, o)| p.0 != o.0) {
                        "row.inputs.shape"
                    } else {
                        match pi.iter().zip(&oi).find(|(p, o)| p.1 != o.1) {
                            Some((p, _)) if !header.contains(&p.0.as_str()) => "row.inputs.default",
                            _ => "row.inputs",
                        }
                    };
                    out.push(Mismatch { code: code.into(), step, expected: (*item).clone(), observed: obs });
                    return;
                }
                // the call must carry the row's inputs verbatim, changed flags included (C02)
                if let Some(c) = calls.first() {
                    let ci: Vec<(String, Val, bool)> = c.inputs.clone();
                    let ri: Vec<(String, Val, bool)> = row.inputs.iter().map(|i| (i.signal.name.clone(), ival(i.value), i.changed)).collect();
                    if ci != ri {
                        out.push(Mismatch { code: "proto.item".into(), step, expected: json!("call inputs = row inputs"), observed: obs });
                        return;
                    }
                }
                let po: Vec<(String, Val, Val)> = item["outputs"].as_array().map(|a| a.iter().map(|o| (o["s"].as_str().unwrap().to_string(), Val::from_spec(&o["out"]), Val::from_spec(&o["exp"]))).collect()).unwrap_or_default();
                let oo: Vec<(String, Val, Val)> = row.outputs.iter().map(|o| (o.signal.name.clone(), oval(o.output), eval_(o.expected))).collect();
                if po.len() != oo.len() || po.iter().zip(&oo).any(|(p, o)| p.0 != o.0) {
                    out.push(Mismatch { code: "row.outputs.sig".into(), step, expected: (*item).clone(), observed: obs });
                    return;
                }
                if let Some((p, _)) = po.iter().zip(&oo).find(|(p, o)| p.2 != o.2) {
                    // the first differing expected value: of a signal without a column (always X), of a virtual signal, or from an ordinary column
                    let header: Vec<&str> = b["header"].as_array().map(|a| a.iter().filter_map(|h| h.as_str()).collect()).unwrap_or_default();
                    let is_virt = b["decls"].as_array().map(|a| a.iter().any(|d| d["name"].as_str() == Some(p.0.as_str()))).unwrap_or(false);
                    let is_bidir = b["signals"].as_array().map(|a| a.iter().any(|g| g["name"].as_str() == Some(p.0.as_str()) && g["dir"] == "bidir")).unwrap_or(false);
                    let col = if is_bidir { format!("{}_out", p.0) } else { p.0.clone() };
                    let has_col = header.contains(&col.as_str());
                    let code = match (has_col, is_virt) {
                        (false, true) => "row.expected.vdefault",
                        (false, false) => "row.expected.default",
                        (true, true) => "row.expected.virt",
                        (true, false) => "row.expected",
                    };
                    out.push(Mismatch { code: code.into(), step, expected: (*item).clone(), observed: obs });
                    return;
                }
                if po.iter().zip(&oo).any(|(p, o)| p.1 != o.1) {
                    out.push(Mismatch { code: "row.output".into(), step, expected: (*item).clone(), observed: obs });
                    return;
                }
                // verdicts by the X/Z rules (C03), computed here from the definition
                for o in &row.outputs {
                    let (e, v) = (eval_(o.expected), oval(o.output));
                    let pass = match (e, v) {
                        (Val::X, _) => true,
                        (Val::Z, Val::Z) => true,
                        (Val::N(a), Val::N(b)) => a == b,
                        _ => false,
                    };
                    if o.check() != pass || o.is_checked() != (e != Val::X) {
                        out.push(Mismatch { code: "attr.verdict".into(), step, expected: json!(pass), observed: obs });
                        return;
                    }
                }
                if let Some(pv) = item.get("vars").and_then(|v| v.as_array()) {
                    let mut want: Vec<(String, i64)> = pv.iter().map(|p| (p[0].as_str().unwrap().to_string(), from_limbs(&p[1]))).collect();
                    want.sort();
                    let mut got: Vec<(String, i64)> = it.vars().into_iter().collect();
                    got.sort();
                    if want != got {
                        out.push(Mismatch { code: "vars".into(), step, expected: json!(want), observed: json!(got) });
                        return;
                    }
                }
            }
        }
    }
}

/// Replay one behaviour. Returns the mismatches and the printed text.
pub fn replay_one(b: &J, seed: u64) -> (Vec<Mismatch>, String) {
    let mut rng = StdRng::seed_from_u64(seed);
    let header: Vec<String> = b["header"].as_array().unwrap().iter().map(|h| h.as_str().unwrap().to_string()).collect();
    let supplied: Vec<Sig> = b["signals"].as_array().unwrap().iter().map(Sig::from_spec).filter(|s| s.dir != Dir::Virt).collect();
    let mut next_id = 1;
    let mut prog = stmts_from_spec(&b["prog"], &mut next_id, &mut || rng.gen_bool(0.5));
    // declarations (if any) go in front, or anywhere when the behaviour says where
    if let Some(decls) = b.get("decls").and_then(|d| d.as_array()) {
        for (i, d) in decls.iter().enumerate() {
            let st = Stmt::Declare { name: d["name"].as_str().unwrap().into(), e: Expr::from_spec(&d["e"]) };
            let pos = d.get("pos").and_then(|p| p.as_u64()).map(|p| p as usize).unwrap_or(i).min(prog.len());
            prog.insert(pos, st);
        }
    }
    let layout = if seed % 2 == 0 { Layout::canonical() } else { Layout::random(seed) };
    let printed = print_test(&header, &prog, &layout);
    let mut out = vec![];
    *crate::WATCH_TEXT.lock().unwrap() = printed.text.clone();
    let expect_load = b.get("load").and_then(|l| l.as_str()).unwrap_or("ok");
    let tc = match load(&printed.text, &supplied) {
        Loaded::Ok(tc) => {
            if expect_load != "ok" {
                out.push(Mismatch { code: "bind.accept".into(), step: 0, expected: json!(expect_load), observed: json!("ok") });
                return (out, printed.text);
            }
            tc
        }
        Loaded::ParseErr(e) => {
            out.push(Mismatch { code: "load".into(), step: 0, expected: json!(expect_load), observed: json!(format!("parse error: {e}")) });
            return (out, printed.text);
        }
        Loaded::BindErr(e) => {
            if expect_load == "ok" {
                out.push(Mismatch { code: "load".into(), step: 0, expected: json!("ok"), observed: json!(format!("bind error: {e}")) });
            }
            return (out, printed.text);
        }
        Loaded::Panic(p) => {
            out.push(Mismatch { code: "panic.load".into(), step: 0, expected: json!(expect_load), observed: json!(p) });
            return (out, printed.text);
        }
    };
    // driver table: every signal the script mentions, as the test knows it (or a foreign 1-bit output)
    let mut table: Vec<Signal> = supplied.iter().filter(|s| s.is_out()).map(|s| s.to_real()).collect();
    if let Some(script) = b["script"].as_array() {
        for ans in script {
            if let Some(outs) = ans["outs"].as_array() {
                for o in outs {
                    let name = o["s"].as_str().unwrap();
                    if !table.iter().any(|s| s.name == name) {
                        table.push(Signal::output(name, 1));
                    }
                }
            }
        }
    }
    let script = answers(&b["script"], &table);
    let policy: Policy = Box::new(move |idx, _k, _i| script.get(idx).cloned().unwrap_or(Answer::Err(999_999)));
    let (core, log) = Core::new(table, policy);
    if b["own_write"].as_bool().unwrap_or(true) {
        let mut d = DrvW(core);
        iterate(&tc, &mut d, &log, b, &printed.line_of, &mut out);
    } else {
        let mut d = Drv(core);
        iterate(&tc, &mut d, &log, b, &printed.line_of, &mut out);
    }
    (out, printed.text)
}

/// Replay a file of behaviours; returns a JSON summary.
pub fn replay_file(path: &str, seed: u64) -> J {
    use std::hash::{Hash, Hasher};
    let text = std::fs::read_to_string(path).expect("read behaviours");
    let mut n = 0usize;
    let mut mismatches = vec![];
    let mut distinct = std::collections::HashSet::new();
    let mut nontrivial = 0usize;
    let mut samples = vec![];
    for (i, line) in text.lines().enumerate() {
        if line.trim().is_empty() {
            continue;
        }
        let b: J = serde_json::from_str(line).expect("behaviour JSON");
        n += 1;
        let (ms, src) = replay_one(&b, seed.wrapping_add(i as u64));
        let mut h = std::collections::hash_map::DefaultHasher::new();
        line.hash(&mut h);
        let rows = b["items"].as_array().map(|a| a.iter().filter(|x| x["k"] == "row").count()).unwrap_or(0);
        if distinct.insert(h.finish()) && rows >= 2 {
            nontrivial += 1;
            if samples.len() < 2 {
                samples.push(json!({"text": src, "rows": rows, "items": b["items"].as_array().map(|a| a.len())}));
            }
        }
        for m in ms.into_iter().take(1) {
            if mismatches.len() < 200 {
                mismatches.push(json!({"behaviour": i + 1, "code": m.code, "step": m.step, "expected": m.expected, "observed": m.observed, "text": src, "line": line}));
            } else {
                mismatches.push(json!({"behaviour": i + 1, "code": m.code}));
            }
        }
    }
    json!({"behaviours": n, "distinct_nontrivial": nontrivial, "mismatches": mismatches, "samples": samples})
}

/// Replay MC_Lexer behaviours: the specification's tokens for every enumerated string against the crate's lexer.
pub fn replay_lex_file(path: &str) -> J {
    let text = std::fs::read_to_string(path).expect("read behaviours");
    let mut n = 0usize;
    let mut nontrivial = 0usize;
    let mut mismatches = vec![];
    let mut samples = vec![];
    for (i, line) in text.lines().enumerate() {
        if line.trim().is_empty() {
            continue;
        }
        let b: J = serde_json::from_str(line).expect("behaviour JSON");
        n += 1;
        let s: String = b["cs"].as_array().map(|a| a.iter().map(|c| char::from_u32(c.as_u64().unwrap() as u32).unwrap()).collect()).unwrap_or_default();
        *crate::WATCH_TEXT.lock().unwrap() = s.clone();
        let want: Vec<(String, usize, usize)> = b["toks"].as_array().map(|a| a.iter().map(|t| (t[0].as_str().unwrap().to_string(), t[1].as_u64().unwrap() as usize, t[2].as_u64().unwrap() as usize)).collect()).unwrap_or_default();
        if want.len() >= 3 {
            nontrivial += 1;
            if samples.len() < 2 && want.len() >= 4 {
                samples.push(json!({"text": s, "tokens": want}));
            }
        }
        // C20, differential on the real lexer: layout-only rewritings of this string (more blank space, a comment - with
        // and without text - appended to every line, blank lines inserted) leave the real token kinds unchanged
        {
            let kinds = |t: &str| -> Option<Vec<String>> {
                guarded(|| digital_test_runner::verif::tokens(t, false)).ok().flatten().map(|v| {
                    let mut k: Vec<String> = vec![];
                    for (kind, _, _) in v {
                        if kind == "Eol" && k.last().map(|l| l == "Eol").unwrap_or(false) {
                            continue;
                        }
                        k.push(kind);
                    }
                    k
                })
            };
            let base = kinds(&s);
            let widen: String = s.chars().map(|c| if c == ' ' || c == '\t' || c == '\r' { format!("{c}\t ") } else { c.to_string() }).collect();
            let mut variants = vec![("blank space", widen), ("blank lines", s.replace('\n', "\n \n"))];
            if !s.contains('#') {
                variants.push(("comments", format!("{} #$", s.replace('\n', "#l!\n"))));
                variants.push(("bare comments", format!("{}#", s.replace('\n', " #\n"))));
            }
            for (what, v) in variants {
                if kinds(&v) != base && mismatches.len() < 300 {
                    mismatches.push(json!({"behaviour": i + 1, "code": "layout.tokens", "step": 0, "text": s, "expected": json!({"rewriting": what, "kinds": base}), "observed": json!({"text": v, "kinds": kinds(&v)}), "line": line}));
                    break;
                }
            }
        }
        match guarded(|| digital_test_runner::verif::tokens(&s, false)) {
            Err(p) => mismatches.push(json!({"behaviour": i + 1, "code": "panic", "step": 0, "text": s, "expected": json!(want), "observed": p, "line": line})),
            Ok(got) => {
                let got = got.unwrap_or_default();
                if got != want {
                    // same kinds in the same order but different byte spans: only locations are affected (C09), not what is parsed
                    let kinds_same = got.len() == want.len() && got.iter().zip(&want).all(|(a, b)| a.0 == b.0);
                    mismatches.push(json!({"behaviour": i + 1, "code": if kinds_same { "lex.spans" } else { "lex.tokens" }, "step": 0, "text": s, "expected": json!(want), "observed": json!(got), "line": line}));
                }
            }
        }
    }
    json!({"behaviours": n, "distinct_nontrivial": nontrivial, "mismatches": mismatches, "samples": samples})
}

fn render_tokens(h: &J, t: &J) -> String {
    let mut s = String::new();
    for part in [h, t] {
        for tok in part.as_array().map(|a| a.iter()).into_iter().flatten() {
            let src = tok.as_str().unwrap_or("");
            if src == "\n" {
                s.push('\n');
            } else {
                s.push_str(src);
                s.push(' ');
            }
        }
    }
    s
}

fn dump_row_lines(stmts: &J, out: &mut Vec<u64>) {
    for s in stmts.as_array().map(|a| a.iter()).into_iter().flatten() {
        match s["k"].as_str().unwrap_or("") {
            "row" => out.push(s["line"].as_u64().unwrap_or(0)),
            "loop" | "while" => dump_row_lines(&s["body"], out),
            _ => {}
        }
    }
}

/// Replay MC_Parser behaviours: token strings rendered to text, parsed by the real crate, verdict and row lines compared.
pub fn replay_parse_file(path: &str) -> J {
    use std::str::FromStr;
    let text = std::fs::read_to_string(path).expect("read behaviours");
    let mut n = 0usize;
    let mut nontrivial = 0usize;
    let mut mismatches = vec![];
    let mut samples = vec![];
    for (i, line) in text.lines().enumerate() {
        if line.trim().is_empty() {
            continue;
        }
        let b: J = serde_json::from_str(line).expect("behaviour JSON");
        n += 1;
        let src = render_tokens(&b["h"], &b["t"]);
        *crate::WATCH_TEXT.lock().unwrap() = src.clone();
        let want_ok = b["ok"].as_bool().unwrap();
        let valid = b["valid"].as_bool().unwrap();
        if b["t"].as_array().map(|a| a.len()).unwrap_or(0) >= 3 {
            nontrivial += 1;
            if samples.len() < 2 && want_ok {
                samples.push(json!({"text": src, "accepted": want_ok}));
            }
        }
        let mut mm = |code: &str, exp: J, obs: J| {
            if mismatches.len() < 300 {
                mismatches.push(json!({"behaviour": i + 1, "code": code, "step": 0, "text": src, "expected": exp, "observed": obs, "line": line}));
            }
        };
        match guarded(|| digital_test_runner::ParsedTestCase::from_str(&src)) {
            Err(p) => mm("panic", json!(want_ok), json!(p)),
            Ok(Ok(p)) => {
                if !valid {
                    mm("accept.invalid", json!("rejected by the grammar"), json!("accepted"));
                } else if !want_ok {
                    mm("verdict", json!(want_ok), json!(true));
                } else {
                    let d: J = serde_json::from_str(&p.verif_dump()).expect("dump");
                    let mut got = vec![];
                    dump_row_lines(&d["stmts"], &mut got);
                    let want: Vec<u64> = b["lines"].as_array().map(|a| a.iter().map(|x| x.as_u64().unwrap()).collect()).unwrap_or_default();
                    if got != want {
                        mm("ast.lines", json!(want), json!(got));
                    }
                }
            }
            Ok(Err(e)) => {
                let spans_ok = e.at.iter().all(|sp| sp.start <= sp.end && sp.end <= src.len() && src.is_char_boundary(sp.start) && src.is_char_boundary(sp.end));
                if !spans_ok {
                    mm("spans", json!("in range"), json!(format!("{:?}", e.at)));
                } else if valid {
                    mm("reject.valid", json!("accepted by the grammar"), json!(format!("{e:?}")));
                } else if want_ok {
                    mm("verdict", json!(want_ok), json!(false));
                }
            }
        }
    }
    json!({"behaviours": n, "distinct_nontrivial": nontrivial, "mismatches": mismatches, "samples": samples})
}

/// Replay MC_Values behaviours: the verdict of every (expected, output) pair through the real API.
pub fn replay_verdict_file(path: &str) -> J {
    use digital_test_runner::{DataRow, ExpectedValue, OutputResultEntry, OutputValue};
    let text = std::fs::read_to_string(path).expect("read behaviours");
    let sig = Signal::output("Q", 64);
    let mut n = 0usize;
    let mut mismatches = vec![];
    let mut samples = vec![];
    for (i, line) in text.lines().enumerate() {
        if line.trim().is_empty() {
            continue;
        }
        let b: J = serde_json::from_str(line).expect("behaviour JSON");
        n += 1;
        let ev = match Val::from_spec(&b["exp"]) {
            Val::N(x) => ExpectedValue::Value(x),
            Val::Z => ExpectedValue::Z,
            Val::X => ExpectedValue::X,
        };
        let ov = match Val::from_spec(&b["out"]) {
            Val::N(x) => OutputValue::Value(x),
            Val::Z => OutputValue::Z,
            Val::X => OutputValue::X,
        };
        let want = b["check"].as_bool().unwrap();
        let want_checked = b["is_checked"].as_bool().unwrap();
        let got = guarded(|| {
            let entry = OutputResultEntry { signal: &sig, output: ov, expected: ev };
            let row = DataRow { inputs: vec![], outputs: vec![entry.clone()], line: 1 };
            let failing = row.failing_outputs().count();
            (entry.check(), entry.is_checked(), ev.check(ov), ov.check(ev), failing)
        });
        if samples.len() < 3 && i % 97 == 0 {
            samples.push(json!({"expected": b["exp"], "output": b["out"], "check": want}));
        }
        match got {
            Err(p) => mismatches.push(json!({"behaviour": i + 1, "code": "panic", "step": 0, "text": line, "expected": want, "observed": p, "line": line})),
            Ok((c, ic, c2, c3, f)) => {
                if c != want || c2 != want || c3 != want || ic != want_checked || (f == 0) != want {
                    mismatches.push(json!({"behaviour": i + 1, "code": "attr.verdict", "step": 0, "text": format!("expected={ev:?} output={ov:?}"),
                        "expected": json!({"check": want, "is_checked": want_checked}), "observed": json!({"entry.check": c, "expected.check": c2, "output.check": c3, "is_checked": ic, "failing": f}), "line": line}));
                }
            }
        }
    }
    json!({"behaviours": n, "distinct_nontrivial": n, "mismatches": mismatches, "samples": samples})
}

/// Replay MC_Sched behaviours: the schedule is executed on real iterators over one TestCase, each with its own driver.
pub fn replay_sched_file(path: &str) -> J {
    let text = std::fs::read_to_string(path).expect("read behaviours");
    let mut n = 0usize;
    let mut mismatches: Vec<J> = vec![];
    let mut samples = vec![];
    for (i, line) in text.lines().enumerate() {
        if line.trim().is_empty() {
            continue;
        }
        let b: J = serde_json::from_str(line).expect("behaviour JSON");
        n += 1;
        let header: Vec<String> = b["header"].as_array().unwrap().iter().map(|h| h.as_str().unwrap().to_string()).collect();
        let supplied: Vec<Sig> = b["signals"].as_array().unwrap().iter().map(Sig::from_spec).collect();
        let mut next_id = 1;
        let prog = stmts_from_spec(&b["prog"], &mut next_id, &mut || false);
        let printed = print_test(&header, &prog, &Layout::canonical());
        *crate::WATCH_TEXT.lock().unwrap() = printed.text.clone();
        let Loaded::Ok(tc) = load(&printed.text, &supplied) else {
            mismatches.push(json!({"behaviour": i + 1, "code": "load", "step": 0, "text": printed.text, "expected": "ok", "observed": "rejected", "line": line}));
            continue;
        };
        let table: Vec<Signal> = supplied.iter().filter(|s| s.is_out()).map(|s| s.to_real()).collect();
        let scripts = b["scripts"].as_array().unwrap();
        let mut drivers: Vec<DrvW> = vec![];
        for sc in scripts {
            let script = answers(sc, &table);
            let policy: Policy = Box::new(move |idx, _k, _i| script.get(idx).cloned().unwrap_or(Answer::Err(999_999)));
            let (core, _log) = Core::new(table.clone(), policy);
            drivers.push(DrvW(core));
        }
        let mut its: Vec<_> = drivers.iter_mut().map(|d| guarded(|| tc.try_iter(d)).ok().and_then(|r| r.ok())).collect();
        let mut pos = vec![0usize; its.len()];
        let mut seen: Vec<Vec<J>> = vec![vec![]; its.len()];
        let sched: Vec<usize> = b["sched"].as_array().unwrap().iter().map(|x| x.as_u64().unwrap() as usize - 1).collect();
        if samples.len() < 2 && sched.len() >= 6 {
            samples.push(json!({"text": printed.text, "schedule": b["sched"]}));
        }
        let mut bad = None;
        for (step, &j) in sched.iter().enumerate() {
            let want = &b["hists"][j][pos[j]];
            pos[j] += 1;
            let Some(it) = its[j].as_mut() else {
                bad = Some(("ctor.res", step, want.clone(), json!("constructor failed")));
                break;
            };
            let got = guarded(|| it.next());
            let obs = match &got {
                Err(p) => json!({"k": "panic", "msg": p}),
                Ok(None) => json!({"k": "none"}),
                Ok(Some(Err(IterationError::Driver(_)))) => json!({"k": "err", "class": "driver"}),
                Ok(Some(Err(IterationError::Runtime(_)))) => json!({"k": "err", "class": "runtime"}),
                Ok(Some(Ok(row))) => row_to_spec(row),
            };
            seen[j].push(obs.clone());
            if obs["k"] != want["k"] {
                bad = Some((if obs["k"] == "panic" { "panic" } else { "sched.item" }, step, want.clone(), obs));
                break;
            }
            if want["k"] == "row" {
                let same = obs["line"].as_u64() == printed.line_of.get(&(want["line"].as_u64().unwrap() as usize)).map(|l| *l as u64)
                    && sv_list(&obs["inputs"]) == sv_list(&want["inputs"])
                    && obs["outputs"].as_array().unwrap().len() == want["outputs"].as_array().unwrap().len()
                    && obs["outputs"].as_array().unwrap().iter().zip(want["outputs"].as_array().unwrap()).all(|(o, w)| o["s"] == w["s"] && Val::from_spec(&o["out"]) == Val::from_spec(&w["out"]) && Val::from_spec(&o["exp"]) == Val::from_spec(&w["exp"]));
                let mut wv: Vec<(String, i64)> = want["vars"].as_array().unwrap().iter().map(|p| (p[0].as_str().unwrap().to_string(), from_limbs(&p[1]))).collect();
                wv.sort();
                let mut gv: Vec<(String, i64)> = it.vars().into_iter().collect();
                gv.sort();
                if !same || wv != gv {
                    bad = Some(("sched.item", step, want.clone(), obs));
                    break;
                }
            }
        }
        drop(its);
        // differential (C15 proper): each iterator, stepped alone against a driver giving the same answers, yields the same items
        // as it did while the others were stepped in between
        let mut differ = None;
        for (j, sc) in scripts.iter().enumerate() {
            let script = answers(sc, &table);
            let policy: Policy = Box::new(move |idx, _k, _i| script.get(idx).cloned().unwrap_or(Answer::Err(999_999)));
            let (core, _log) = Core::new(table.clone(), policy);
            let mut d = DrvW(core);
            if let Ok(Ok(mut it)) = guarded(|| tc.try_iter(&mut d)) {
                for (step, was) in seen[j].iter().enumerate() {
                    let got = guarded(|| it.next());
                    let obs = match &got {
                        Err(p) => json!({"k": "panic", "msg": p}),
                        Ok(None) => json!({"k": "none"}),
                        Ok(Some(Err(IterationError::Driver(_)))) => json!({"k": "err", "class": "driver"}),
                        Ok(Some(Err(IterationError::Runtime(_)))) => json!({"k": "err", "class": "runtime"}),
                        Ok(Some(Ok(row))) => row_to_spec(row),
                    };
                    if &obs != was {
                        differ = Some((j, step, was.clone(), obs));
                        break;
                    }
                }
            }
            if differ.is_some() {
                break;
            }
        }
        if let Some((j, step, was, obs)) = differ {
            if mismatches.len() < 200 {
                mismatches.push(json!({"behaviour": i + 1, "code": "sched.differ", "step": step, "text": printed.text, "expected": json!({"iterator": j + 1, "alone": obs}), "observed": json!({"interleaved": was}), "line": line}));
            }
        } else if let Some((code, step, exp, obs)) = bad {
            if mismatches.len() < 200 {
                mismatches.push(json!({"behaviour": i + 1, "code": code, "step": step, "text": printed.text, "expected": exp, "observed": obs, "line": line}));
            }
        }
    }
    json!({"behaviours": n, "distinct_nontrivial": n, "mismatches": mismatches, "samples": samples})
}

/// Replay MC_Expr behaviours: the expression text is parsed by the real parser (as a row entry) and its tree compared.
pub fn replay_expr_file(path: &str) -> J {
    use std::str::FromStr;
    let text = std::fs::read_to_string(path).expect("read behaviours");
    let mut n = 0usize;
    let mut nontrivial = 0usize;
    let mut mismatches: Vec<J> = vec![];
    let mut samples = vec![];
    for (i, line) in text.lines().enumerate() {
        if line.trim().is_empty() {
            continue;
        }
        let b: J = serde_json::from_str(line).expect("behaviour JSON");
        n += 1;
        let toks: Vec<&str> = b["src"].as_array().unwrap().iter().map(|t| t.as_str().unwrap()).collect();
        // alternate between blank-separated and tight spelling (operators never need blanks)
        let expr_text = if i % 2 == 0 { toks.join(" ") } else { toks.join("") };
        let src = format!("A\n({expr_text})\n");
        *crate::WATCH_TEXT.lock().unwrap() = src.clone();
        let want = Expr::from_spec(&b["tree"]);
        if toks.len() >= 5 {
            nontrivial += 1;
            if samples.len() < 3 && toks.len() >= 7 {
                samples.push(json!({"text": expr_text, "tree": b["tree"]}));
            }
        }
        let got = guarded(|| digital_test_runner::ParsedTestCase::from_str(&src));
        let obs = match got {
            Err(p) => Err(("panic", p)),
            Ok(Err(e)) => Err(("reject.valid", format!("{e:?}"))),
            Ok(Ok(p)) => {
                let d: J = serde_json::from_str(&p.verif_dump()).expect("dump");
                Ok(Expr::from_dump(&d["stmts"][0]["entries"][0]["e"]))
            }
        };
        match obs {
            Err((code, msg)) => {
                if mismatches.len() < 200 {
                    mismatches.push(json!({"behaviour": i + 1, "code": code, "step": 0, "text": src, "expected": b["tree"], "observed": msg, "line": line}));
                }
            }
            Ok(t) => {
                if t != want && mismatches.len() < 200 {
                    mismatches.push(json!({"behaviour": i + 1, "code": "ast", "step": 0, "text": src, "expected": b["tree"], "observed": t.to_spec(), "line": line}));
                }
            }
        }
    }
    json!({"behaviours": n, "distinct_nontrivial": nontrivial, "mismatches": mismatches, "samples": samples})
}
