//! The harness's own model of a test: AST, signals, values, and their JSON encodings.
//!
//! Two encodings are used:
//!  * the *spec encoding* read and written by the TLA+ modules: 64-bit numbers are four 16-bit limbs
//!    `[l3,l2,l1,l0]` (TLC integers are 32 bit), values are tagged records `{"t":"n","w":[..]}`, `{"t":"Z"}`, `{"t":"X"}`;
//!  * the *dump encoding* produced by the crate's `verif-hooks` (plain i64 numbers), only read here.

use serde_json::{json, Value as J};

pub fn limbs(n: i64) -> J {
    let u = n as u64;
    json!([(u >> 48) & 0xFFFF, (u >> 32) & 0xFFFF, (u >> 16) & 0xFFFF, u & 0xFFFF])
}

pub fn from_limbs(j: &J) -> i64 {
    let a = j.as_array().expect("limbs");
    let mut u: u64 = 0;
    for x in a {
        u = (u << 16) | (x.as_u64().expect("limb") & 0xFFFF);
    }
    u as i64
}

#[derive(Debug, Clone, Copy, PartialEq, Eq, Hash)]
pub enum Val {
    N(i64),
    Z,
    X,
}

impl Val {
    pub fn to_spec(self) -> J {
        match self {
            Val::N(n) => json!({"t":"n","w":limbs(n)}),
            Val::Z => json!({"t":"Z"}),
            Val::X => json!({"t":"X"}),
        }
    }
    pub fn from_spec(j: &J) -> Val {
        match j["t"].as_str().expect("value tag") {
            "n" => Val::N(from_limbs(&j["w"])),
            "Z" => Val::Z,
            "X" => Val::X,
            t => panic!("bad value tag {t}"),
        }
    }
}

#[derive(Debug, Clone, PartialEq, Eq, Hash)]
pub enum Expr {
    Num(i64),
    Id(String),
    Un(String, Box<Expr>),
    Bin(String, Box<Expr>, Box<Expr>),
    Fn(String, Vec<Expr>),
}

#[derive(Debug, Clone, PartialEq, Eq, Hash)]
pub enum Entry {
    Num(i64),
    Expr(Expr),
    Bits(u8, Expr),
    X,
    Z,
    C,
}

#[derive(Debug, Clone, PartialEq, Eq, Hash)]
pub enum Stmt {
    Let { name: String, e: Expr },
    /// `id` identifies the source row; the printer maps it to a line
    Row { id: usize, entries: Vec<Entry> },
    Loop { var: String, max: Expr, body: Vec<Stmt> },
    Repeat { max: Expr, id: usize, entries: Vec<Entry> },
    While { cond: Expr, body: Vec<Stmt> },
    Reset,
    /// kept in place for printing; collected separately for the specification
    Declare { name: String, e: Expr },
}

#[derive(Debug, Clone, Copy, PartialEq, Eq, Hash)]
pub enum Dir {
    In,
    Out,
    Bidir,
    Virt,
}

#[derive(Debug, Clone, PartialEq, Eq, Hash)]
pub struct Sig {
    pub name: String,
    pub bits: usize,
    pub dir: Dir,
    /// default for In / Bidir
    pub def: Val,
    /// expression for Virt
    pub vexpr: Option<Expr>,
}

impl Sig {
    pub fn input(name: &str, bits: usize, def: Val) -> Sig {
        Sig { name: name.into(), bits, dir: Dir::In, def, vexpr: None }
    }
    pub fn output(name: &str, bits: usize) -> Sig {
        Sig { name: name.into(), bits, dir: Dir::Out, def: Val::X, vexpr: None }
    }
    pub fn bidir(name: &str, bits: usize, def: Val) -> Sig {
        Sig { name: name.into(), bits, dir: Dir::Bidir, def, vexpr: None }
    }
    pub fn is_in(&self) -> bool {
        matches!(self.dir, Dir::In | Dir::Bidir)
    }
    pub fn is_out(&self) -> bool {
        matches!(self.dir, Dir::Out | Dir::Bidir)
    }
    pub fn to_real(&self) -> digital_test_runner::Signal {
        use digital_test_runner::{InputValue, Signal};
        let iv = |v: Val| match v {
            Val::N(n) => InputValue::Value(n),
            _ => InputValue::Z,
        };
        match self.dir {
            Dir::In => Signal::input(self.name.clone(), self.bits, iv(self.def)),
            Dir::Out => Signal::output(self.name.clone(), self.bits),
            Dir::Bidir => Signal::bidirectional(self.name.clone(), self.bits, iv(self.def)),
            Dir::Virt => panic!("virtual signals cannot be supplied"),
        }
    }
    pub fn to_spec(&self) -> J {
        json!({
            "name": self.name,
            "bits": self.bits,
            "dir": match self.dir { Dir::In => "in", Dir::Out => "out", Dir::Bidir => "bidir", Dir::Virt => "virt" },
            "def": self.def.to_spec(),
            "vexpr": self.vexpr.as_ref().map(|e| e.to_spec()).unwrap_or_else(|| Expr::Num(0).to_spec()),
        })
    }
    pub fn from_spec(j: &J) -> Sig {
        let dir = match j["dir"].as_str().unwrap() {
            "in" => Dir::In,
            "out" => Dir::Out,
            "bidir" => Dir::Bidir,
            "virt" => Dir::Virt,
            d => panic!("bad dir {d}"),
        };
        Sig {
            name: j["name"].as_str().unwrap().to_string(),
            bits: j["bits"].as_u64().unwrap() as usize,
            dir,
            def: j.get("def").map(Val::from_spec).unwrap_or(Val::X),
            vexpr: if dir == Dir::Virt { Some(Expr::from_spec(&j["vexpr"])) } else { None },
        }
    }
}

impl Expr {
    pub fn num(n: i64) -> Expr {
        Expr::Num(n)
    }
    pub fn id(s: &str) -> Expr {
        Expr::Id(s.into())
    }
    pub fn un(op: &str, e: Expr) -> Expr {
        Expr::Un(op.into(), Box::new(e))
    }
    pub fn bin(op: &str, l: Expr, r: Expr) -> Expr {
        Expr::Bin(op.into(), Box::new(l), Box::new(r))
    }
    pub fn call(name: &str, args: Vec<Expr>) -> Expr {
        Expr::Fn(name.into(), args)
    }
    pub fn to_spec(&self) -> J {
        match self {
            Expr::Num(n) => json!({"k":"num","v":limbs(*n)}),
            Expr::Id(s) => json!({"k":"id","name":s}),
            Expr::Un(op, e) => json!({"k":"un","op":op,"e":e.to_spec()}),
            Expr::Bin(op, l, r) => json!({"k":"bin","op":op,"l":l.to_spec(),"r":r.to_spec()}),
            Expr::Fn(name, args) => json!({"k":"fn","name":name,"args":args.iter().map(|a| a.to_spec()).collect::<Vec<_>>()}),
        }
    }
    pub fn from_spec(j: &J) -> Expr {
        match j["k"].as_str().expect("expr kind") {
            "num" => Expr::Num(from_limbs(&j["v"])),
            "id" => Expr::Id(j["name"].as_str().unwrap().into()),
            "un" => Expr::un(j["op"].as_str().unwrap(), Expr::from_spec(&j["e"])),
            "bin" => Expr::bin(j["op"].as_str().unwrap(), Expr::from_spec(&j["l"]), Expr::from_spec(&j["r"])),
            "fn" => Expr::Fn(
                j["name"].as_str().unwrap().into(),
                j["args"].as_array().unwrap().iter().map(Expr::from_spec).collect(),
            ),
            k => panic!("bad expr kind {k}"),
        }
    }
    /// from the crate's dump encoding (plain numbers)
    pub fn from_dump(j: &J) -> Expr {
        match j["k"].as_str().expect("expr kind") {
            "num" => Expr::Num(j["v"].as_i64().unwrap()),
            "id" => Expr::Id(j["name"].as_str().unwrap().into()),
            "un" => Expr::un(j["op"].as_str().unwrap(), Expr::from_dump(&j["e"])),
            "bin" => Expr::bin(j["op"].as_str().unwrap(), Expr::from_dump(&j["l"]), Expr::from_dump(&j["r"])),
            "fn" => Expr::Fn(
                j["name"].as_str().unwrap().into(),
                j["args"].as_array().unwrap().iter().map(Expr::from_dump).collect(),
            ),
            k => panic!("bad expr kind {k}"),
        }
    }
    pub fn ids(&self, out: &mut Vec<String>) {
        match self {
            Expr::Num(_) => {}
            Expr::Id(s) => out.push(s.clone()),
            Expr::Un(_, e) => e.ids(out),
            Expr::Bin(_, l, r) => {
                l.ids(out);
                r.ids(out)
            }
            Expr::Fn(_, args) => args.iter().for_each(|a| a.ids(out)),
        }
    }
    pub fn uses_random(&self) -> bool {
        match self {
            Expr::Num(_) | Expr::Id(_) => false,
            Expr::Un(_, e) => e.uses_random(),
            Expr::Bin(_, l, r) => l.uses_random() || r.uses_random(),
            Expr::Fn(name, args) => name == "random" || args.iter().any(|a| a.uses_random()),
        }
    }
}

impl Entry {
    pub fn to_spec(&self) -> J {
        match self {
            Entry::Num(n) => json!({"k":"num","v":limbs(*n)}),
            Entry::Expr(e) => json!({"k":"expr","e":e.to_spec()}),
            Entry::Bits(n, e) => json!({"k":"bits","n":n,"e":e.to_spec()}),
            Entry::X => json!({"k":"X"}),
            Entry::Z => json!({"k":"Z"}),
            Entry::C => json!({"k":"C"}),
        }
    }
    pub fn from_spec(j: &J) -> Entry {
        match j["k"].as_str().expect("entry kind") {
            "num" => Entry::Num(from_limbs(&j["v"])),
            "expr" => Entry::Expr(Expr::from_spec(&j["e"])),
            "bits" => Entry::Bits(j["n"].as_u64().unwrap() as u8, Expr::from_spec(&j["e"])),
            "X" => Entry::X,
            "Z" => Entry::Z,
            "C" => Entry::C,
            k => panic!("bad entry kind {k}"),
        }
    }
    pub fn from_dump(j: &J) -> Entry {
        match j["k"].as_str().expect("entry kind") {
            "num" => Entry::Num(j["v"].as_i64().unwrap()),
            "expr" => Entry::Expr(Expr::from_dump(&j["e"])),
            "bits" => Entry::Bits(j["n"].as_u64().unwrap() as u8, Expr::from_dump(&j["e"])),
            "X" => Entry::X,
            "Z" => Entry::Z,
            "C" => Entry::C,
            k => panic!("bad entry kind {k}"),
        }
    }
    pub fn width(&self) -> usize {
        match self {
            Entry::Bits(n, _) => *n as usize,
            _ => 1,
        }
    }
}

/// Statement in the form the specification (and the crate's AST) uses: `repeat` is a loop over `n`,
/// declarations are not statements, rows carry their line.
pub fn stmts_to_spec(stmts: &[Stmt], line_of: &dyn Fn(usize) -> usize) -> Vec<J> {
    let mut out = vec![];
    for s in stmts {
        match s {
            Stmt::Let { name, e } => out.push(json!({"k":"let","name":name,"e":e.to_spec()})),
            Stmt::Row { id, entries } => out.push(json!({"k":"row","line":line_of(*id),
                "entries":entries.iter().map(|e| e.to_spec()).collect::<Vec<_>>()})),
            Stmt::Loop { var, max, body } => out.push(json!({"k":"loop","var":var,"max":max.to_spec(),
                "body":stmts_to_spec(body, line_of)})),
            Stmt::Repeat { max, id, entries } => out.push(json!({"k":"loop","var":"n","max":max.to_spec(),
                "body":[{"k":"row","line":line_of(*id),"entries":entries.iter().map(|e| e.to_spec()).collect::<Vec<_>>()}]})),
            Stmt::While { cond, body } => out.push(json!({"k":"while","cond":cond.to_spec(),
                "body":stmts_to_spec(body, line_of)})),
            Stmt::Reset => out.push(json!({"k":"reset"})),
            Stmt::Declare { .. } => {}
        }
    }
    out
}

/// Statements from the spec encoding (used when replaying behaviours printed by TLC). Rows get fresh ids
/// in order of appearance; a loop over `n` with a single row body is printed as `repeat` when `as_repeat` allows.
pub fn stmts_from_spec(j: &J, next_id: &mut usize, repeat_ok: &mut dyn FnMut() -> bool) -> Vec<Stmt> {
    let mut out = vec![];
    for s in j.as_array().expect("stmts") {
        match s["k"].as_str().expect("stmt kind") {
            "let" => out.push(Stmt::Let { name: s["name"].as_str().unwrap().into(), e: Expr::from_spec(&s["e"]) }),
            "row" => {
                let id = *next_id;
                *next_id += 1;
                out.push(Stmt::Row { id, entries: s["entries"].as_array().unwrap().iter().map(Entry::from_spec).collect() });
            }
            "loop" => {
                let var = s["var"].as_str().unwrap().to_string();
                let body_j = s["body"].as_array().unwrap();
                if var == "n" && body_j.len() == 1 && body_j[0]["k"] == "row" && repeat_ok() {
                    let id = *next_id;
                    *next_id += 1;
                    out.push(Stmt::Repeat {
                        max: Expr::from_spec(&s["max"]),
                        id,
                        entries: body_j[0]["entries"].as_array().unwrap().iter().map(Entry::from_spec).collect(),
                    });
                } else {
                    out.push(Stmt::Loop { var, max: Expr::from_spec(&s["max"]), body: stmts_from_spec(&s["body"], next_id, repeat_ok) });
                }
            }
            "while" => out.push(Stmt::While { cond: Expr::from_spec(&s["cond"]), body: stmts_from_spec(&s["body"], next_id, repeat_ok) }),
            "reset" => out.push(Stmt::Reset),
            k => panic!("bad stmt kind {k}"),
        }
    }
    out
}

/// Statements from the crate's dump encoding, converted to the spec encoding (numbers to limbs).
pub fn dump_stmts_to_spec(j: &J) -> Vec<J> {
    j.as_array()
        .expect("stmts")
        .iter()
        .map(|s| match s["k"].as_str().expect("stmt kind") {
            "let" => json!({"k":"let","name":s["name"],"e":Expr::from_dump(&s["e"]).to_spec()}),
            "row" => json!({"k":"row","line":s["line"],
                "entries":s["entries"].as_array().unwrap().iter().map(|e| Entry::from_dump(e).to_spec()).collect::<Vec<_>>()}),
            "loop" => json!({"k":"loop","var":s["var"],"max":Expr::from_dump(&s["max"]).to_spec(),"body":dump_stmts_to_spec(&s["body"])}),
            "while" => json!({"k":"while","cond":Expr::from_dump(&s["cond"]).to_spec(),"body":dump_stmts_to_spec(&s["body"])}),
            "reset" => json!({"k":"reset"}),
            k => panic!("bad stmt kind {k}"),
        })
        .collect()
}

pub fn decls_of(stmts: &[Stmt], out: &mut Vec<(String, Expr)>) {
    for s in stmts {
        match s {
            Stmt::Declare { name, e } => out.push((name.clone(), e.clone())),
            Stmt::Loop { body, .. } | Stmt::While { body, .. } => decls_of(body, out),
            _ => {}
        }
    }
}

/// A complete generated test: header, supplied signals and program.
#[derive(Debug, Clone)]
pub struct Test {
    pub header: Vec<String>,
    pub supplied: Vec<Sig>,
    pub prog: Vec<Stmt>,
}

impl Test {
    pub fn decls(&self) -> Vec<(String, Expr)> {
        let mut d = vec![];
        decls_of(&self.prog, &mut d);
        d
    }
}
