//! Random generators for tests, configurations and driver policies.
//!
//! All randomness derives from the seed handed in by bin/check (VERIF_SEED).

use crate::driver::*;
use crate::model::*;
use rand::rngs::StdRng;
use rand::seq::SliceRandom;
use rand::{Rng, SeedableRng};
use std::collections::HashSet;

pub const BOUNDARY: [i64; 26] = [
    0,
    1,
    2,
    3,
    5,
    7,
    15,
    16,
    255,
    256,
    65535,
    65536,
    0x7FFF_FFFF,
    0x8000_0000,
    0xFFFF_FFFF,
    0x1_0000_0000,
    0x0123_4567_89AB_CDEF,
    i64::MAX,
    i64::MAX - 1,
    i64::MIN,
    i64::MIN + 1,
    -1,
    -2,
    -3,
    -65536,
    0x4000_0000_0000_0000,
];

/// Knobs of the program generator; each workload sets them to suit its property's quantifier.
#[derive(Debug, Clone)]
pub struct Knobs {
    pub max_depth: usize,
    pub max_stmts: usize,
    /// names usable as variables; every one of them is also a device output so that any program binds
    pub vars: Vec<String>,
    pub p_row: f64,
    pub p_let: f64,
    pub p_loop: f64,
    pub p_repeat: f64,
    pub p_while: f64,
    pub p_reset: f64,
    /// probability that an input entry is X / C / Z / bits
    pub p_x: f64,
    pub p_c: f64,
    pub p_z: f64,
    pub p_bits: f64,
    /// probability that an entry is an expression rather than a literal
    pub p_expr: f64,
    pub allow_random: bool,
    pub allow_div: bool,
    pub big_consts: bool,
    pub max_bound: i64,
    pub expr_depth: usize,
    /// number of `declare` statements (virtual signals V0..)
    pub max_virtuals: usize,
    pub bidir: bool,
    /// probability that an identifier leaf is a device output rather than a pool variable
    pub p_device: f64,
    /// literal entries use boundary constants and full-width values
    pub wide_literals: bool,
    /// output signals may be 63 or 64 bits wide
    pub wide_signals: bool,
    /// declarations may call random()
    pub random_in_declares: bool,
    /// an extra OUTPUT signal called `<name>_out` where <name> is a virtual signal, an output or an input (the suffix means
    /// something only next to a bidirectional signal)
    pub suffix_names: bool,
    /// virtual signals of the shape `ZERO op OUTPUT` / `OUTPUT op ZERO` (an absorbing or neutral constant next to a device read:
    /// evaluation is strict, so a Z / X there is an error whatever the other operand is)
    pub absorbing_virtuals: bool,
    /// `bits(0, e)` entries: no column, but e is evaluated (draws, errors) like any other entry
    pub zero_bits: bool,
    /// a sum of literals whose spellings in different radices share their digits (10 = 0b10.. no: 2 = 0b10, 8 = 010, 10, 16 = 0x10)
    pub twin_literals: bool,
}

impl Knobs {
    pub fn control_flow() -> Knobs {
        Knobs {
            max_depth: 4,
            max_stmts: 24,
            vars: ["a", "b", "i", "j", "n", "v"].iter().map(|s| s.to_string()).collect(),
            p_row: 0.40,
            p_let: 0.22,
            p_loop: 0.14,
            p_repeat: 0.08,
            p_while: 0.10,
            p_reset: 0.02,
            p_x: 0.02,
            p_c: 0.0,
            p_z: 0.03,
            p_bits: 0.25,
            p_expr: 0.6,
            allow_random: false,
            allow_div: true,
            big_consts: false,
            max_bound: 4,
            expr_depth: 3,
            max_virtuals: 0,
            bidir: false,
            p_device: 0.0,
            wide_literals: false,
            wide_signals: false,
            random_in_declares: false,
            suffix_names: false,
            absorbing_virtuals: false,
            zero_bits: false,
            twin_literals: false,
        }
    }
    /// flat-ish programs dominated by data rows
    pub fn rows() -> Knobs {
        Knobs { max_depth: 2, max_stmts: 12, p_row: 0.7, p_let: 0.1, p_loop: 0.08, p_repeat: 0.06, p_while: 0.04, p_reset: 0.02, ..Knobs::control_flow() }
    }
}

/// Column plan of the generated tests: which header columns exist and what they are bound to.
#[derive(Debug, Clone)]
pub struct Plan {
    pub header: Vec<String>,
    pub supplied: Vec<Sig>,
    /// per header column: true if it is an input column
    pub col_is_input: Vec<bool>,
    /// columns (0-based) that may be produced pairwise by one bits(2,e) entry: (c, c+1)
    pub bit_pairs: Vec<usize>,
    /// names of the virtual signals to declare
    pub virtuals: Vec<String>,
    /// names an expression may read from the device
    pub readable: Vec<String>,
}

pub struct Gen {
    pub rng: StdRng,
    pub k: Knobs,
    next_row_id: usize,
}

impl Gen {
    pub fn new(seed: u64, k: Knobs) -> Gen {
        Gen { rng: StdRng::seed_from_u64(seed), k, next_row_id: 0 }
    }

    /// The default plan: inputs A(4) B(8) P(1) Q(1) (B possibly bidirectional); one output per variable name and per
    /// while-counter with assorted widths; header = the inputs plus a random subset of the outputs (and of the
    /// virtual signals, and B_out), in random order.
    pub fn plan(&mut self) -> Plan {
        let b_bidir = self.k.bidir && self.rng.gen_bool(0.6);
        let b_def = if self.rng.gen_bool(0.2) { Val::Z } else { Val::N(self.rng.gen_range(0..256)) };
        let mut supplied = vec![
            Sig::input("A", 4, Val::N(self.rng.gen_range(0..16))),
            if b_bidir { Sig::bidir("B", 8, b_def) } else { Sig::input("B", 8, b_def) },
            Sig::input("P", 1, Val::N(0)),
            Sig::input("Q", 1, Val::N(1)),
        ];
        // (widths 63 and 64 are the business of the C07 / C10 workloads)
        let widths: &[usize] = if self.k.wide_signals { &[1, 3, 4, 8, 16, 32, 63, 64] } else { &[1, 3, 4, 8, 16, 32] };
        for v in self.k.vars.clone() {
            supplied.push(Sig::output(&v, *widths.choose(&mut self.rng).unwrap()));
        }
        for d in 0..=self.k.max_depth {
            supplied.push(Sig::output(&format!("w{d}"), 8));
        }
        supplied.shuffle(&mut self.rng);
        let nv = if self.k.max_virtuals > 0 { self.rng.gen_range(0..=self.k.max_virtuals) } else { 0 };
        let virtuals: Vec<String> = (0..nv).map(|i| format!("V{i}")).collect();
        let mut outs: Vec<String> = self.k.vars.clone();
        outs.shuffle(&mut self.rng);
        outs.truncate(self.rng.gen_range(0..3));
        let mut cols: Vec<Vec<String>> = vec![vec!["A".into()], vec!["B".into()], vec!["P".into(), "Q".into()]];
        if self.rng.gen_bool(0.2) {
            cols.remove(1); // B omitted from the header: always at its default
        }
        if b_bidir && self.rng.gen_bool(0.7) {
            cols.push(vec!["B_out".into()]);
        }
        if self.k.suffix_names && self.rng.gen_bool(0.7) {
            let mut bases: Vec<String> = virtuals.clone();
            bases.extend(virtuals.clone());
            bases.extend(outs.clone());
            bases.push("A".into());
            let name = format!("{}_out", bases.choose(&mut self.rng).unwrap());
            supplied.push(Sig::output(&name, 4));
            if self.rng.gen_bool(0.85) {
                cols.push(vec![name]);
            }
        }
        for o in outs {
            cols.push(vec![o]);
        }
        for v in &virtuals {
            if self.rng.gen_bool(if self.k.suffix_names { 0.4 } else { 0.7 }) {
                cols.push(vec![v.clone()]);
            }
        }
        cols.shuffle(&mut self.rng);
        let mut header = vec![];
        let mut bit_pairs = vec![];
        for c in cols {
            if c.len() == 2 {
                bit_pairs.push(header.len());
            }
            header.extend(c);
        }
        let col_is_input = header.iter().map(|h| supplied.iter().any(|s| &s.name == h && s.is_in())).collect();
        let mut readable: Vec<String> = supplied.iter().filter(|s| s.is_out()).map(|s| s.name.clone()).collect();
        readable.sort();
        Plan { header, supplied, col_is_input, bit_pairs, virtuals, readable }
    }

    pub fn small_const(&mut self) -> i64 {
        if self.k.big_consts && self.rng.gen_bool(0.3) {
            *BOUNDARY.choose(&mut self.rng).unwrap()
        } else {
            self.rng.gen_range(0..6)
        }
    }

    pub fn const_of(c: i64) -> Expr {
        if c >= 0 {
            Expr::Num(c)
        } else if c == i64::MIN {
            Expr::bin("-", Expr::un("-", Expr::Num(i64::MAX)), Expr::Num(1))
        } else {
            Expr::un("-", Expr::Num(-c))
        }
    }

    fn const_expr(&mut self) -> Expr {
        let c = self.small_const();
        Gen::const_of(c)
    }

    fn ident(&mut self, plan: Option<&Plan>) -> Expr {
        if let Some(p) = plan {
            if self.rng.gen_bool(self.k.p_device) && !p.readable.is_empty() {
                return Expr::Id(p.readable.choose(&mut self.rng).unwrap().clone());
            }
        }
        Expr::Id(self.k.vars.choose(&mut self.rng).unwrap().clone())
    }

    pub fn expr(&mut self, depth: usize) -> Expr {
        self.expr_in(depth, None)
    }

    pub fn expr_in(&mut self, depth: usize, plan: Option<&Plan>) -> Expr {
        if depth == 0 || self.rng.gen_bool(0.3) {
            return if self.rng.gen_bool(0.5) { self.const_expr() } else { self.ident(plan) };
        }
        let c = self.rng.gen_range(0..100);
        if c < 60 {
            let ops: &[&str] = if self.k.allow_div {
                &["+", "-", "*", "/", "%", "&", "|", "^", "<<", ">>", "<", ">", "<=", ">=", "=", "!="]
            } else {
                &["+", "-", "*", "&", "|", "^", "<<", ">>", "<", ">", "<=", ">=", "=", "!="]
            };
            let op = *ops.choose(&mut self.rng).unwrap();
            let l = self.expr_in(depth - 1, plan);
            let mut r = self.expr_in(depth - 1, plan);
            if op == "/" || op == "%" {
                // keep clear of division by zero (that is C10's workload)
                r = Expr::bin("|", r, Expr::Num(1));
            }
            if (op == "<<" || op == ">>") && !self.k.big_consts {
                r = Expr::bin("&", r, Expr::Num(7));
            }
            Expr::bin(op, l, r)
        } else if c < 75 {
            let op = *["-", "!", "~"].choose(&mut self.rng).unwrap();
            Expr::un(op, self.expr_in(depth - 1, plan))
        } else if c < 88 {
            Expr::call("ite", vec![self.expr_in(depth - 1, plan), self.expr_in(depth - 1, plan), self.expr_in(depth - 1, plan)])
        } else if self.k.allow_random && c < 97 {
            let bound = if self.rng.gen_bool(0.6) {
                Expr::Num(self.rng.gen_range(2..9))
            } else if self.k.big_consts && self.rng.gen_bool(0.5) {
                Expr::Num(*[2i64, 3, 1 << 31, (1 << 32) + 1, 1 << 62, (1 << 62) - 1, 1_000_000_007].choose(&mut self.rng).unwrap())
            } else {
                Expr::bin("+", Expr::bin("&", self.expr_in(depth - 1, plan), Expr::Num(7)), Expr::Num(2))
            };
            Expr::call("random", vec![bound])
        } else {
            self.expr_in(depth - 1, plan)
        }
    }

    /// a loop bound: constants incl. zero and negatives, variables, device reads, arithmetic
    pub fn bound(&mut self, plan: &Plan) -> Expr {
        if self.k.allow_random && self.rng.gen_bool(0.2) {
            // a drawn bound: evaluated (and drawn) once on entry
            return Expr::call("random", vec![Expr::Num(self.k.max_bound.max(1) + 1)]);
        }
        let c = self.rng.gen_range(0..100);
        if c < 45 {
            Gen::const_of(self.rng.gen_range(-2..=self.k.max_bound))
        } else if c < 70 {
            // a variable or device read, kept small
            Expr::bin("&", self.ident(Some(plan)), Expr::Num(3))
        } else {
            Expr::bin("%", self.expr_in(2, Some(plan)), Expr::Num(self.k.max_bound.max(1) + 1))
        }
    }

    fn literal(&mut self, bits_hint: usize) -> i64 {
        if self.k.wide_literals {
            match self.rng.gen_range(0..3) {
                0 => (*BOUNDARY.choose(&mut self.rng).unwrap()).max(0),
                1 => self.rng.gen_range(0..i64::MAX),
                _ => self.rng.gen_range(0..(1i64 << bits_hint.min(20))),
            }
        } else if self.rng.gen_bool(0.2) {
            // spellings that begin with every digit of every radix (0xb1, 0XBB, 0b1011, 017, 0x1b ...)
            *[7i64, 8, 9, 10, 11, 12, 13, 14, 15, 0xb1, 0xbb, 0xb0b, 0xc0ffee, 0xdead, 0xe, 0xf00d, 0x1b, 0xab, 64, 255, 0o17, 0o70].choose(&mut self.rng).unwrap()
        } else {
            self.small_const().max(0)
        }
    }

    pub fn entries(&mut self, plan: &Plan) -> Vec<Entry> {
        let mut out = vec![];
        let mut c = 0;
        while c < plan.header.len() {
            if self.k.zero_bits && self.rng.gen_bool(0.06) {
                out.push(Entry::Bits(0, self.expr_in(self.k.expr_depth.min(2), Some(plan))));
            }
            if plan.bit_pairs.contains(&c) && self.rng.gen_bool(self.k.p_bits) {
                out.push(Entry::Bits(2, self.expr_in(self.k.expr_depth.min(2), Some(plan))));
                c += 2;
                continue;
            }
            // bits() over any two or three neighbouring columns, whatever they are bound to (wide inputs, expected values):
            // each entry is one bit, also of a negative argument
            if self.k.p_bits > 0.0 && c + 1 < plan.header.len() && self.rng.gen_bool(self.k.p_bits * 0.2) {
                let n = if c + 2 < plan.header.len() && self.rng.gen_bool(0.3) { 3 } else { 2 };
                let e = self.expr_in(self.k.expr_depth.min(2), Some(plan));
                let e = if self.rng.gen_bool(0.4) { Expr::bin("-", Expr::num(0), e) } else { e };
                out.push(Entry::Bits(n, e));
                c += n as usize;
                continue;
            }
            let is_in = plan.col_is_input[c];
            let r: f64 = self.rng.gen();
            let e = if is_in {
                if r < self.k.p_x {
                    Entry::X
                } else if r < self.k.p_x + self.k.p_c {
                    Entry::C
                } else if r < self.k.p_x + self.k.p_c + self.k.p_z {
                    Entry::Z
                } else if self.rng.gen_bool(self.k.p_expr) {
                    Entry::Expr(self.expr_in(self.k.expr_depth, Some(plan)))
                } else {
                    Entry::Num(self.literal(8))
                }
            } else if r < 0.2 {
                Entry::X
            } else if r < 0.25 {
                Entry::Z
            } else if self.rng.gen_bool(self.k.p_expr) {
                Entry::Expr(self.expr_in(self.k.expr_depth, Some(plan)))
            } else {
                Entry::Num(self.literal(8))
            };
            out.push(e);
            c += 1;
        }
        out
    }

    pub fn row_id(&mut self) -> usize {
        self.next_row_id += 1;
        self.next_row_id
    }

    /// `counter`: the counter of the loop whose frame the block runs in (a `let` must not assign it)
    fn block(&mut self, plan: &Plan, depth: usize, budget: &mut usize, counter: Option<&str>, min_len: usize) -> Vec<Stmt> {
        let mut out = vec![];
        let len = self.rng.gen_range(min_len..=(min_len + 4));
        for _ in 0..len {
            if *budget == 0 {
                break;
            }
            *budget -= 1;
            let k = &self.k;
            let total = k.p_row + k.p_let + k.p_loop + k.p_repeat + k.p_while + k.p_reset;
            let mut r: f64 = self.rng.gen::<f64>() * total;
            let nest_ok = depth < self.k.max_depth;
            macro_rules! pick {
                ($p:expr) => {{
                    let hit = r < $p;
                    r -= $p;
                    hit
                }};
            }
            if pick!(self.k.p_row) {
                let id = self.row_id();
                out.push(Stmt::Row { id, entries: self.entries(plan) });
            } else if pick!(self.k.p_let) {
                let names: Vec<String> = self.k.vars.iter().filter(|v| Some(v.as_str()) != counter).cloned().collect();
                let name = names.choose(&mut self.rng).unwrap().clone();
                out.push(Stmt::Let { name, e: self.expr_in(self.k.expr_depth, Some(plan)) });
            } else if pick!(self.k.p_loop) {
                if !nest_ok {
                    continue;
                }
                let var = self.k.vars.iter().filter(|v| v.as_str() != "n").cloned().collect::<Vec<_>>().choose(&mut self.rng).unwrap().clone();
                let max = self.bound(plan);
                let body = self.block(plan, depth + 1, budget, Some(&var), 1);
                out.push(Stmt::Loop { var, max, body });
            } else if pick!(self.k.p_repeat) {
                let max = self.bound(plan);
                let id = self.row_id();
                out.push(Stmt::Repeat { max, id, entries: self.entries(plan) });
            } else if pick!(self.k.p_while) {
                if !nest_ok {
                    continue;
                }
                // Every next() must terminate: either the loop is driven by a dedicated counter `w<depth>`
                // that only this loop increments, or (arbitrary condition, possibly read from the device)
                // each iteration yields at least one row, and the run is cut at max_rows.
                let mut body = self.block(plan, depth + 1, budget, counter, 0);
                let cond = if self.rng.gen_bool(0.7) {
                    let v = format!("w{depth}");
                    let pos = self.rng.gen_range(0..=body.len());
                    body.insert(pos, Stmt::Let { name: v.clone(), e: Expr::bin("+", Expr::Id(v.clone()), Expr::Num(1)) });
                    let c = Expr::bin("<", Expr::Id(v), Expr::Num(self.rng.gen_range(0..4)));
                    // draws in control positions: a condition is evaluated once per pass (and once more to leave), each
                    // evaluation draws once; the value drawn does not decide the control flow
                    if self.k.allow_random && self.rng.gen_bool(0.5) {
                        let n = self.rng.gen_range(2..9);
                        let r = Expr::call("random", vec![Expr::Num(n)]);
                        match self.rng.gen_range(0..3) {
                            0 => Expr::bin("&", c, Expr::bin("<", r, Expr::Num(n))),
                            1 => Expr::bin("&", Expr::bin(">=", r, Expr::Num(0)), c),
                            _ => Expr::bin("*", c, Expr::bin("+", r, Expr::Num(1))),
                        }
                    } else {
                        c
                    }
                } else {
                    let id = self.row_id();
                    let pos = self.rng.gen_range(0..=body.len());
                    body.insert(pos, Stmt::Row { id, entries: self.entries(plan) });
                    self.expr_in(2, Some(plan))
                };
                out.push(Stmt::While { cond, body });
            } else {
                out.push(Stmt::Reset);
            }
        }
        out
    }

    pub fn program(&mut self, plan: &Plan) -> Vec<Stmt> {
        let mut budget = self.k.max_stmts;
        self.next_row_id = 0;
        let mut prog = self.block(plan, 0, &mut budget, None, 2);
        if !contains_row(&prog) {
            let id = self.row_id();
            prog.push(Stmt::Row { id, entries: self.entries(plan) });
        }
        // neighbouring literals that are spelt with the same digits in different radices (whatever was converted before, each
        // literal has the value of its own digits in its own radix)
        if self.k.twin_literals && self.rng.gen_bool(0.7) {
            let fam: [i64; 4] = *[[2i64, 8, 10, 16], [3, 9, 11, 17], [4, 64, 100, 256], [5, 65, 101, 257], [7, 73, 111, 273]].choose(&mut self.rng).unwrap();
            let mut v = fam.to_vec();
            v.extend_from_slice(&fam);
            v.shuffle(&mut self.rng);
            let mut e = Expr::Num(v[0]);
            for x in &v[1..] {
                e = Expr::bin(*["+", "^", "|"].choose(&mut self.rng).unwrap(), e, Expr::Num(*x));
            }
            let at = self.rng.gen_range(0..=prog.len());
            prog.insert(at, Stmt::Let { name: "tw".into(), e });
        }
        // a block of draws run twice, each time right after `resetRandom`: the second pass must repeat the draws of the first
        // (same bounds in the same order from the same restart point) whatever happened in between
        if self.k.allow_random && self.rng.gen_bool(0.5) {
            let (a, b) = (self.rng.gen_range(2..60), self.rng.gen_range(2..1000));
            let draw = Stmt::Let { name: "rr".into(), e: Expr::bin("+", Expr::call("random", vec![Expr::Num(a)]), Expr::bin("*", Expr::call("random", vec![Expr::Num(b)]), Expr::Num(64))) };
            for _ in 0..2 {
                prog.push(Stmt::Reset);
                prog.push(draw.clone());
                let id = self.row_id();
                prog.push(Stmt::Row { id, entries: self.entries(plan) });
            }
        }
        // declarations of the virtual signals: anywhere among the statements, at any depth, in any order
        let mut vs = plan.virtuals.clone();
        vs.shuffle(&mut self.rng);
        for name in vs {
            // a virtual signal reads device outputs only (variables are invisible to it, C14); names that are also
            // variables are deliberately allowed
            let saved = self.k.p_device;
            self.k.p_device = 0.8;
            // (`random` inside a declaration draws from the run's generator like any other: only the C17 workload does that)
            let keep = self.k.random_in_declares && self.k.allow_random;
            let allow_random = std::mem::replace(&mut self.k.allow_random, keep);
            let e = self.expr_in(2, Some(plan));
            let e = if keep { Expr::bin("+", Expr::call("random", vec![Expr::num(self.rng.gen_range(2..50))]), e) } else { e };
            let e = if self.k.absorbing_virtuals && !plan.readable.is_empty() && self.rng.gen_bool(0.6) {
                let o = Expr::Id(plan.readable.choose(&mut self.rng).unwrap().clone());
                let o2 = Expr::Id(plan.readable.choose(&mut self.rng).unwrap().clone());
                let zero = match self.rng.gen_range(0..4) {
                    0 => Expr::Num(0),
                    1 => Expr::bin("-", o2.clone(), o2),
                    2 => Expr::bin("&", o2, Expr::Num(0)),
                    _ => Expr::un("!", Expr::Num(1)),
                };
                let op = *["&", "*", "|", "^", "+", "<<", ">>", "<", "="].choose(&mut self.rng).unwrap();
                if self.rng.gen_bool(0.5) { Expr::bin(op, zero, o) } else { Expr::bin(op, o, zero) }
            } else {
                e
            };
            self.k.p_device = saved;
            self.k.allow_random = allow_random;
            let d = Stmt::Declare { name, e };
            insert_anywhere(&mut prog, d, &mut self.rng);
        }
        prog
    }
}

fn insert_anywhere(stmts: &mut Vec<Stmt>, d: Stmt, rng: &mut StdRng) {
    // descend into a nested block with probability 1/3 when there is one
    let nested: Vec<usize> = stmts.iter().enumerate().filter(|(_, s)| matches!(s, Stmt::Loop { .. } | Stmt::While { .. })).map(|(i, _)| i).collect();
    if !nested.is_empty() && rng.gen_bool(0.33) {
        let i = *nested.choose(rng).unwrap();
        match &mut stmts[i] {
            Stmt::Loop { body, .. } | Stmt::While { body, .. } => return insert_anywhere(body, d, rng),
            _ => unreachable!(),
        }
    }
    let pos = rng.gen_range(0..=stmts.len());
    stmts.insert(pos, d);
}

pub fn contains_row(stmts: &[Stmt]) -> bool {
    stmts.iter().any(|s| match s {
        Stmt::Row { .. } | Stmt::Repeat { .. } => true,
        Stmt::Loop { body, .. } | Stmt::While { body, .. } => contains_row(body),
        _ => false,
    })
}

/// Names read from the device: the harness's own copy of the scoping rules (Scope.tla is the specification;
/// this is only used to choose driver layouts that supply what the program reads).
pub fn reads(prog: &[Stmt]) -> HashSet<String> {
    fn use_ids(e: &Expr, scopes: &[HashSet<String>], out: &mut HashSet<String>) {
        let mut ids = vec![];
        e.ids(&mut ids);
        for i in ids {
            if !scopes.iter().any(|s| s.contains(&i)) {
                out.insert(i);
            }
        }
    }
    fn entries(es: &[Entry], scopes: &[HashSet<String>], out: &mut HashSet<String>) {
        for e in es {
            match e {
                Entry::Expr(e) | Entry::Bits(_, e) => use_ids(e, scopes, out),
                _ => {}
            }
        }
    }
    fn block(stmts: &[Stmt], scopes: &mut Vec<HashSet<String>>, out: &mut HashSet<String>) {
        for s in stmts {
            match s {
                Stmt::Let { name, e } => {
                    use_ids(e, scopes, out);
                    scopes.last_mut().unwrap().insert(name.clone());
                }
                Stmt::Row { entries: es, .. } => entries(es, scopes, out),
                Stmt::Loop { var, max, body } => {
                    use_ids(max, scopes, out);
                    scopes.push([var.clone()].into_iter().collect());
                    block(body, scopes, out);
                    scopes.pop();
                }
                Stmt::Repeat { max, entries: es, .. } => {
                    use_ids(max, scopes, out);
                    scopes.push(["n".to_string()].into_iter().collect());
                    entries(es, scopes, out);
                    scopes.pop();
                }
                Stmt::While { cond, body } => {
                    use_ids(cond, scopes, out);
                    block(body, scopes, out);
                }
                Stmt::Reset => {}
                Stmt::Declare { e, .. } => use_ids(e, &[], out),
            }
        }
    }
    let mut out = HashSet::new();
    block(prog, &mut vec![HashSet::new()], &mut out);
    out
}

// ---------------------------------------------------------------------------------------------
// driver policies

#[derive(Debug, Clone, Copy, PartialEq, Eq)]
pub enum ValMode {
    /// numbers 0..5: keeps device-driven loop bounds small
    Small,
    /// numbers inside the signal's width, distinct per (call, signal)
    InWidth,
    /// anything: boundary words, negative numbers, Z, X
    Wild,
}

#[derive(Debug, Clone, Copy, PartialEq, Eq)]
pub enum Fault {
    /// the call fails with this error id
    Error(u32),
    Drop,
    /// the answer is empty
    DropAll,
    Add,
    Duplicate,
    Swap,
    Substitute,
}

#[derive(Debug, Clone)]
pub struct PolicySpec {
    pub seed: u64,
    /// indices into the driver table, in the order the driver lists them
    pub layout: Vec<usize>,
    pub widths: Vec<usize>,
    pub mode: ValMode,
    /// signals (table indices) whose value is always a small number (the program reads them)
    pub numeric: Vec<usize>,
    /// probability of Z / X for signals not in `numeric` (Wild mode) or for any signal (`zx_all`)
    pub p_zx: f64,
    pub zx_all: bool,
    pub fault: Option<(usize, Fault)>,
    /// table index of a signal foreign to the test (for Add / Substitute)
    pub foreign: usize,
}

fn mix(a: u64, b: u64, c: u64) -> u64 {
    let mut x = a.wrapping_mul(0x9E37_79B9_7F4A_7C15) ^ b.wrapping_mul(0xC2B2_AE3D_27D4_EB4F) ^ c.wrapping_mul(0x1656_67B1_9E37_79F9);
    x ^= x >> 29;
    x = x.wrapping_mul(0xBF58_476D_1CE4_E5B9);
    x ^= x >> 32;
    x
}

pub fn make_policy(spec: PolicySpec) -> Policy {
    Box::new(move |idx, _kind, _inputs| {
        if let Some((at, Fault::Error(id))) = spec.fault {
            if at == idx {
                return Answer::Err(id);
            }
        }
        let mut list: Vec<(usize, Val)> = spec
            .layout
            .iter()
            .map(|&j| {
                let h = mix(spec.seed, idx as u64, j as u64);
                let small = Val::N(((idx as u64 * 7 + j as u64 * 3 + spec.seed) % 6) as i64);
                let zx = |h: u64| if h & 1 == 0 { Val::Z } else { Val::X };
                let v = if spec.numeric.contains(&j) && !spec.zx_all {
                    small
                } else {
                    let p = (h >> 40) as f64 / (1u64 << 24) as f64;
                    if p < spec.p_zx {
                        zx(h)
                    } else {
                        match spec.mode {
                            ValMode::Small => small,
                            ValMode::InWidth => {
                                let w = spec.widths[j];
                                let m = if w >= 64 { u64::MAX } else { (1u64 << w) - 1 };
                                Val::N((h & m) as i64)
                            }
                            ValMode::Wild => match h % 4 {
                                0 => Val::N(BOUNDARY[(h >> 8) as usize % BOUNDARY.len()]),
                                1 => Val::N(h as i64),
                                2 => Val::N((h >> 8) as i64 % 16),
                                _ => Val::N(-((h >> 8) as i64 % 1000)),
                            },
                        }
                    }
                };
                (j, v)
            })
            .collect();
        if let Some((at, f)) = spec.fault {
            if at == idx && list.is_empty() && f == Fault::Add {
                // a driver that reported nothing so far starts reporting a signal
                list.push((if spec.widths.is_empty() { spec.foreign } else { 0 }, Val::N(1)));
            } else if at == idx && !list.is_empty() {
                let h = mix(spec.seed, 0xFA17, idx as u64) as usize;
                let p = h % list.len();
                match f {
                    Fault::Error(_) => {}
                    Fault::Drop => {
                        list.remove(p);
                    }
                    Fault::DropAll => list.clear(),
                    Fault::Add => list.push((spec.foreign, Val::N(1))),
                    Fault::Duplicate => {
                        let e = list[p];
                        list.insert(p, e);
                    }
                    Fault::Swap => {
                        if list.len() >= 2 {
                            let q = (p + 1 + (h >> 8) % (list.len() - 1)) % list.len();
                            list.swap(p, q);
                        } else {
                            list.push((spec.foreign, Val::N(1)));
                        }
                    }
                    Fault::Substitute => {
                        // another signal of the table in this position: one the test knows, or the foreign one
                        let others: Vec<usize> = (0..spec.widths.len()).filter(|j| *j != list[p].0).collect();
                        let j = if others.is_empty() { spec.foreign } else { others[(h >> 8) % others.len()] };
                        list[p].0 = j;
                    }
                }
            }
        }
        Answer::Ok(list)
    })
}
