//! Random generators for tests, configurations and driver policies.
//!
//! All randomness derives from the seed handed in by bin/check (VERIF_SEED).

use crate::driver::*;
use crate::model::*;
use rand::rngs::StdRng;
use rand::seq::SliceRandom;
use rand::{Rng, SeedableRng};

pub const BOUNDARY: [i64; 26] = [
    0,
    1,
    2,
    3,
    5,
    7,
    15,
    16,
    255,
    256,
    65535,
    65536,
    0x7FFF_FFFF,
    0x8000_0000,
    0xFFFF_FFFF,
    0x1_0000_0000,
    0x0123_4567_89AB_CDEF,
    i64::MAX,
    i64::MAX - 1,
    i64::MIN,
    i64::MIN + 1,
    -1,
    -2,
    -3,
    -65536,
    0x4000_0000_0000_0000,
];

/// Knobs of the program generator; each workload sets them to suit its property's quantifier.
#[derive(Debug, Clone)]
pub struct Knobs {
    pub max_depth: usize,
    pub max_stmts: usize,
    /// names usable as variables; every one of them is also a device output so that any program binds
    pub vars: Vec<String>,
    pub p_row: f64,
    pub p_let: f64,
    pub p_loop: f64,
    pub p_repeat: f64,
    pub p_while: f64,
    pub p_reset: f64,
    pub p_declare: f64,
    /// probability that an input entry is X / C / Z / bits
    pub p_x: f64,
    pub p_c: f64,
    pub p_z: f64,
    pub p_bits: f64,
    /// probability that an entry is an expression rather than a literal
    pub p_expr: f64,
    pub allow_random: bool,
    pub allow_div: bool,
    pub big_consts: bool,
    pub max_bound: i64,
    pub expr_depth: usize,
}

impl Knobs {
    pub fn control_flow() -> Knobs {
        Knobs {
            max_depth: 4,
            max_stmts: 24,
            vars: ["a", "b", "i", "j", "n", "v"].iter().map(|s| s.to_string()).collect(),
            p_row: 0.40,
            p_let: 0.22,
            p_loop: 0.14,
            p_repeat: 0.08,
            p_while: 0.10,
            p_reset: 0.02,
            p_declare: 0.0,
            p_x: 0.03,
            p_c: 0.03,
            p_z: 0.03,
            p_bits: 0.25,
            p_expr: 0.6,
            allow_random: false,
            allow_div: true,
            big_consts: false,
            max_bound: 4,
            expr_depth: 3,
        }
    }
}

/// Column plan of the generated tests: which header columns exist and what they are bound to.
#[derive(Debug, Clone)]
pub struct Plan {
    pub header: Vec<String>,
    pub supplied: Vec<Sig>,
    /// per header column: true if it is an input column
    pub col_is_input: Vec<bool>,
    /// columns (0-based) that may be produced pairwise by one bits(2,e) entry: (c, c+1)
    pub bit_pairs: Vec<usize>,
}

pub struct Gen {
    pub rng: StdRng,
    pub k: Knobs,
    next_row_id: usize,
}

impl Gen {
    pub fn new(seed: u64, k: Knobs) -> Gen {
        Gen { rng: StdRng::seed_from_u64(seed), k, next_row_id: 0 }
    }

    /// The default plan: inputs A(4) B(8) P(1) Q(1); one output per variable name with assorted widths;
    /// header = the inputs plus a random subset of the outputs, in random order.
    pub fn plan(&mut self) -> Plan {
        let mut supplied = vec![
            Sig::input("A", 4, Val::N(self.rng.gen_range(0..16))),
            Sig::input("B", 8, if self.rng.gen_bool(0.2) { Val::Z } else { Val::N(self.rng.gen_range(0..256)) }),
            Sig::input("P", 1, Val::N(0)),
            Sig::input("Q", 1, Val::N(1)),
        ];
        let widths = [1usize, 3, 4, 8, 16, 32, 63, 64];
        for v in self.k.vars.clone() {
            supplied.push(Sig::output(&v, *widths.choose(&mut self.rng).unwrap()));
        }
        for d in 0..=self.k.max_depth {
            supplied.push(Sig::output(&format!("w{d}"), 8));
        }
        supplied.shuffle(&mut self.rng);
        let mut header: Vec<String> = vec!["A".into(), "B".into()];
        // P Q stay adjacent so that bits(2,e) can fill them
        let mut outs: Vec<String> = self.k.vars.clone();
        outs.shuffle(&mut self.rng);
        outs.truncate(self.rng.gen_range(0..3));
        let mut cols: Vec<Vec<String>> = vec![vec!["A".into()], vec!["B".into()], vec!["P".into(), "Q".into()]];
        if self.rng.gen_bool(0.2) {
            cols.remove(1); // B omitted from the header: always at its default
        }
        for o in outs {
            cols.push(vec![o]);
        }
        cols.shuffle(&mut self.rng);
        header.clear();
        let mut bit_pairs = vec![];
        for c in cols {
            if c.len() == 2 {
                bit_pairs.push(header.len());
            }
            header.extend(c);
        }
        let col_is_input = header.iter().map(|h| supplied.iter().any(|s| &s.name == h && s.is_in())).collect();
        Plan { header, supplied, col_is_input, bit_pairs }
    }

    pub fn small_const(&mut self) -> i64 {
        if self.k.big_consts && self.rng.gen_bool(0.3) {
            *BOUNDARY.choose(&mut self.rng).unwrap()
        } else {
            self.rng.gen_range(0..6)
        }
    }

    fn const_expr(&mut self) -> Expr {
        let c = self.small_const();
        if c >= 0 {
            Expr::Num(c)
        } else if c == i64::MIN {
            Expr::bin("-", Expr::un("-", Expr::Num(i64::MAX)), Expr::Num(1))
        } else {
            Expr::un("-", Expr::Num(-c))
        }
    }

    pub fn expr(&mut self, depth: usize) -> Expr {
        if depth == 0 || self.rng.gen_bool(0.3) {
            return if self.rng.gen_bool(0.5) {
                self.const_expr()
            } else {
                Expr::Id(self.k.vars.choose(&mut self.rng).unwrap().clone())
            };
        }
        let c = self.rng.gen_range(0..100);
        if c < 60 {
            let ops: &[&str] = if self.k.allow_div {
                &["+", "-", "*", "/", "%", "&", "|", "^", "<<", ">>", "<", ">", "<=", ">=", "=", "!="]
            } else {
                &["+", "-", "*", "&", "|", "^", "<<", ">>", "<", ">", "<=", ">=", "=", "!="]
            };
            let op = *ops.choose(&mut self.rng).unwrap();
            let l = self.expr(depth - 1);
            let mut r = self.expr(depth - 1);
            if op == "/" || op == "%" {
                // keep clear of division by zero (that is C10's workload)
                r = Expr::bin("|", r, Expr::Num(1));
            }
            if (op == "<<" || op == ">>") && !self.k.big_consts {
                r = Expr::bin("&", r, Expr::Num(7));
            }
            Expr::bin(op, l, r)
        } else if c < 75 {
            let op = *["-", "!", "~"].choose(&mut self.rng).unwrap();
            Expr::un(op, self.expr(depth - 1))
        } else if c < 88 {
            Expr::call("ite", vec![self.expr(depth - 1), self.expr(depth - 1), self.expr(depth - 1)])
        } else if self.k.allow_random && c < 96 {
            let bound = if self.rng.gen_bool(0.7) {
                Expr::Num(self.rng.gen_range(2..9))
            } else {
                Expr::bin("+", Expr::bin("&", self.expr(depth - 1), Expr::Num(7)), Expr::Num(2))
            };
            Expr::call("random", vec![bound])
        } else {
            self.expr(depth - 1)
        }
    }

    /// a loop bound: constants incl. zero and negatives, variables, device reads, arithmetic
    pub fn bound(&mut self) -> Expr {
        let c = self.rng.gen_range(0..100);
        if c < 45 {
            let b = self.rng.gen_range(-2..=self.k.max_bound);
            if b < 0 {
                Expr::un("-", Expr::Num(-b))
            } else {
                Expr::Num(b)
            }
        } else if c < 70 {
            // a variable or device read, kept small
            Expr::bin("&", Expr::Id(self.k.vars.choose(&mut self.rng).unwrap().clone()), Expr::Num(3))
        } else {
            Expr::bin("%", self.expr(2), Expr::Num(self.k.max_bound.max(1) + 1))
        }
    }

    fn entries(&mut self, plan: &Plan) -> Vec<Entry> {
        let mut out = vec![];
        let mut c = 0;
        while c < plan.header.len() {
            if plan.bit_pairs.contains(&c) && self.rng.gen_bool(self.k.p_bits) {
                out.push(Entry::Bits(2, self.expr(self.k.expr_depth.min(2))));
                c += 2;
                continue;
            }
            let is_in = plan.col_is_input[c];
            let r: f64 = self.rng.gen();
            let e = if is_in {
                if r < self.k.p_x {
                    Entry::X
                } else if r < self.k.p_x + self.k.p_c {
                    Entry::C
                } else if r < self.k.p_x + self.k.p_c + self.k.p_z {
                    Entry::Z
                } else if self.rng.gen_bool(self.k.p_expr) {
                    Entry::Expr(self.expr(self.k.expr_depth))
                } else {
                    Entry::Num(self.small_const().max(0))
                }
            } else if r < 0.2 {
                Entry::X
            } else if r < 0.25 {
                Entry::Z
            } else if self.rng.gen_bool(self.k.p_expr) {
                Entry::Expr(self.expr(self.k.expr_depth))
            } else {
                Entry::Num(self.small_const().max(0))
            };
            out.push(e);
            c += 1;
        }
        out
    }

    fn row_id(&mut self) -> usize {
        self.next_row_id += 1;
        self.next_row_id
    }

    /// `counter`: the counter of the loop whose frame the block runs in (a `let` must not assign it)
    fn block(&mut self, plan: &Plan, depth: usize, budget: &mut usize, counter: Option<&str>, min_len: usize) -> Vec<Stmt> {
        let mut out = vec![];
        let len = self.rng.gen_range(min_len..=(min_len + 4));
        for _ in 0..len {
            if *budget == 0 {
                break;
            }
            *budget -= 1;
            let k = &self.k;
            let total = k.p_row + k.p_let + k.p_loop + k.p_repeat + k.p_while + k.p_reset + k.p_declare;
            let mut r: f64 = self.rng.gen::<f64>() * total;
            let nest_ok = depth < self.k.max_depth;
            macro_rules! pick {
                ($p:expr) => {{
                    let hit = r < $p;
                    r -= $p;
                    hit
                }};
            }
            if pick!(self.k.p_row) {
                let id = self.row_id();
                out.push(Stmt::Row { id, entries: self.entries(plan) });
            } else if pick!(self.k.p_let) {
                let names: Vec<String> = self.k.vars.iter().filter(|v| Some(v.as_str()) != counter).cloned().collect();
                let name = names.choose(&mut self.rng).unwrap().clone();
                out.push(Stmt::Let { name, e: self.expr(self.k.expr_depth) });
            } else if pick!(self.k.p_loop) {
                if !nest_ok {
                    continue;
                }
                let var = self.k.vars.iter().filter(|v| v.as_str() != "n").cloned().collect::<Vec<_>>().choose(&mut self.rng).unwrap().clone();
                let max = self.bound();
                let body = self.block(plan, depth + 1, budget, Some(&var), 1);
                out.push(Stmt::Loop { var, max, body });
            } else if pick!(self.k.p_repeat) {
                let max = self.bound();
                let id = self.row_id();
                out.push(Stmt::Repeat { max, id, entries: self.entries(plan) });
            } else if pick!(self.k.p_while) {
                if !nest_ok {
                    continue;
                }
                // Every next() must terminate: either the loop is driven by a dedicated counter `w<depth>`
                // that only this loop increments, or (arbitrary condition, possibly read from the device)
                // each iteration yields at least one row, and the run is cut at max_rows.
                let mut body = self.block(plan, depth + 1, budget, counter, 0);
                let cond = if self.rng.gen_bool(0.7) {
                    let v = format!("w{depth}");
                    let pos = self.rng.gen_range(0..=body.len());
                    body.insert(pos, Stmt::Let { name: v.clone(), e: Expr::bin("+", Expr::Id(v.clone()), Expr::Num(1)) });
                    Expr::bin("<", Expr::Id(v), Expr::Num(self.rng.gen_range(0..4)))
                } else {
                    let id = self.row_id();
                    let pos = self.rng.gen_range(0..=body.len());
                    body.insert(pos, Stmt::Row { id, entries: self.entries(plan) });
                    self.expr(2)
                };
                out.push(Stmt::While { cond, body });
            } else if pick!(self.k.p_reset) {
                out.push(Stmt::Reset);
            } else {
                // declare: names V0.. are reserved for virtual signals; handled by the caller
                out.push(Stmt::Reset);
            }
        }
        out
    }

    pub fn program(&mut self, plan: &Plan) -> Vec<Stmt> {
        let mut budget = self.k.max_stmts;
        self.next_row_id = 0;
        let mut prog = self.block(plan, 0, &mut budget, None, 2);
        if !contains_row(&prog) {
            let id = self.row_id();
            prog.push(Stmt::Row { id, entries: self.entries(plan) });
        }
        prog
    }
}

pub fn contains_row(stmts: &[Stmt]) -> bool {
    stmts.iter().any(|s| match s {
        Stmt::Row { .. } | Stmt::Repeat { .. } => true,
        Stmt::Loop { body, .. } | Stmt::While { body, .. } => contains_row(body),
        _ => false,
    })
}

/// A driver policy whose answers are a known, mostly injective function of (call index, signal):
/// small numbers so that device-driven loop bounds stay small.
pub fn policy_small(seed: u64, n_signals: usize) -> Policy {
    Box::new(move |idx, _kind, _inputs| {
        Answer::Ok((0..n_signals).map(|j| (j, Val::N(((idx as u64 * 7 + j as u64 * 3 + seed) % 6) as i64))).collect())
    })
}
