------------------------------ MODULE FramedMap ------------------------------
(***************************************************************************)
(* The variable store, laid out as the code lays it out (level B): a       *)
(* vector of (name, value) pairs plus a stack of frame starts.  set looks  *)
(* only in the last frame, get scans backwards over everything, flatten    *)
(* keeps the first hit from the back.  Properties C01 (scoping) and C18    *)
(* (vars()) are statements about this structure.                           *)
(***************************************************************************)
EXTENDS Integers, Sequences

FM_New == [vals |-> <<>>, marks |-> <<>>]

FM_Push(m) == [m EXCEPT !.marks = Append(@, Len(m.vals))]

FM_Pop(m) ==
  LET len == IF m.marks = <<>> THEN 0 ELSE m.marks[Len(m.marks)]
  IN  [vals |-> SubSeq(m.vals, 1, len),
       marks |-> IF m.marks = <<>> THEN <<>> ELSE SubSeq(m.marks, 1, Len(m.marks) - 1)]

FM_FrameStart(m) == IF m.marks = <<>> THEN 0 ELSE m.marks[Len(m.marks)]

\* first index > start holding key k, or 0
RECURSIVE FM_Find(_, _, _)
FM_Find(vals, k, i) ==
  IF i > Len(vals) THEN 0
  ELSE IF vals[i][1] = k THEN i
  ELSE FM_Find(vals, k, i + 1)

FM_Set(m, k, v) ==
  LET i == FM_Find(m.vals, k, FM_FrameStart(m) + 1)
  IN  IF i = 0 THEN [m EXCEPT !.vals = Append(@, <<k, v>>)]
      ELSE [m EXCEPT !.vals[i] = <<k, v>>]

RECURSIVE FM_GetFrom(_, _, _)
FM_GetFrom(vals, k, i) ==
  IF i = 0 THEN [found |-> FALSE]
  ELSE IF vals[i][1] = k THEN [found |-> TRUE, v |-> vals[i][2]]
  ELSE FM_GetFrom(vals, k, i - 1)

FM_Get(m, k) == FM_GetFrom(m.vals, k, Len(m.vals))

\* the visible bindings as a set of <<name, value>> pairs
FM_Flatten(m) ==
  {<<m.vals[i][1], m.vals[i][2]>> : i \in
      {i \in 1..Len(m.vals) : \A j \in (i + 1)..Len(m.vals) : m.vals[j][1] # m.vals[i][1]}}

FM_Depth(m) == Len(m.marks)
=============================================================================
