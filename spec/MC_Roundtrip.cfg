SPECIFICATION Spec
CONSTANTS
  MaxSize = 3
  MaxDepth = 2
  EmitReplay = FALSE
INVARIANTS RoundTrip Valid NoFinalEol
CHECK_DEADLOCK FALSE
