SPECIFICATION Spec
INVARIANT Ok
POSTCONDITION AllSeen
CHECK_DEADLOCK FALSE
