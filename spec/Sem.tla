--------------------------------- MODULE Sem ---------------------------------
(***************************************************************************)
(* Level A: the sequential reading of a test (properties C01, C04, C05,    *)
(* C06, C14, C18 as a definition).  Written to be read and believed:       *)
(*                                                                         *)
(*   - statements run top to bottom;                                       *)
(*   - loop(v,n) / repeat(n): the bound is evaluated once; the body runs   *)
(*     for v = 0 .. n-1 (not at all for n <= 0) in a fresh scope that      *)
(*     disappears afterwards;                                              *)
(*   - while(c): the body runs as long as c is non-zero; no scope;         *)
(*   - let binds or rebinds in the innermost open scope;                   *)
(*   - a row is evaluated in the current environment, then expanded        *)
(*     declaratively: for every assignment of 0/1 to its X inputs, in      *)
(*     binary counting order with the left-most X as the lowest bit, either*)
(*     the row itself or - if it has clock inputs - the triple             *)
(*     (clk 0, unchecked) (clk 1, unchecked) (clk 0, checked);             *)
(*   - values are bound to signals by header NAME; every vector is         *)
(*     complete; numbers are reduced to the signal's width;                *)
(*   - each expanded row is one driver call; only checked rows read the    *)
(*     outputs, which expressions and virtual signals then see.            *)
(*                                                                         *)
(* There is no control stack, no cache, no index table.  The environment is*)
(* a stack of functions.  The driver is a script: the sequence of answers  *)
(* it gives, the first one to the constructor's call.  Run produces at     *)
(* most `want` items, so every prefix of an iteration is a behaviour       *)
(* (rows are produced lazily).                                             *)
(***************************************************************************)
EXTENDS Expr, Bind, TLC, SequencesExt

\* environment: a non-empty sequence of scopes, each a function name -> Word (ScopesGet is in Expr)
ScopesBind(scopes, name, w) ==
  LET t == Len(scopes)
  IN  [scopes EXCEPT ![t] = (name :> w) @@ scopes[t]]

\* the visible bindings, innermost winning, as a set of <<name, value>> (C18)
ScopesView(scopes) ==
  {<<n, ScopesGet(scopes, n).v>> : n \in UNION {DOMAIN scopes[k] : k \in DOMAIN scopes}}

\* evaluation context for Expr!Eval: level A looks variables up in the scopes
CxA(st) == [outs |-> st.outs, vars |-> TRUE, scopes |-> st.scopes]

-----------------------------------------------------------------------------
\* Binding by name (C06) and reduction to the width (C07)
ColOf(header, name) == HeaderPos(header, name)

InVector(ct, entries) ==
  LET ins == SelectSeq(ct.signals, IsIn)
  IN  [k \in DOMAIN ins |->
         LET c == ColOf(ct.header, ins[k].name)
         IN  [s |-> ins[k].name,
              v |-> IF c = 0 THEN ins[k].def
                    ELSE IF entries[c].k = "Z" THEN VZ
                    ELSE Num(WTrunc(entries[c].v, ins[k].bits))]]

ExpVector(ct, entries, checked) ==
  LET outs == SelectSeq(ct.signals, HasExpected)
  IN  [k \in DOMAIN outs |->
         LET c == ColOf(ct.header, IF outs[k].dir = "bidir" THEN outs[k].name \o "_out" ELSE outs[k].name)
         IN  [s |-> outs[k].name,
              v |-> IF c = 0 \/ ~checked THEN VX
                    ELSE IF entries[c].k = "Z" THEN VZ
                    ELSE IF entries[c].k = "X" THEN VX
                    ELSE Num(WTrunc(entries[c].v, outs[k].bits))]]

InputColsOf(ct) ==
  {c \in DOMAIN ct.header : \E i \in DOMAIN ct.signals : IsIn(ct.signals[i]) /\ ct.signals[i].name = ct.header[c]}

-----------------------------------------------------------------------------
\* Declarative expansion (C05).  Result: Seq([entries, checked]).
Expand(ct, entries) ==
  LET incols == InputColsOf(ct)
      xsSet == {c \in DOMAIN entries : entries[c].k = "X" /\ c \in incols}
      xs == SetToSortSeq(xsSet, <)                  \* left to right
      cs == {c \in DOMAIN entries : entries[c].k = "C" /\ c \in incols}
      K == Len(xs)
      Assign(m) ==                                  \* m \in 0 .. 2^K - 1; bit j-1 of m drives xs[j]
        [c \in DOMAIN entries |->
           IF c \in xsSet
           THEN LET j == CHOOSE j \in DOMAIN xs : xs[j] = c
                IN  [k |-> "num", v |-> WFromNat((m \div Pow2(j - 1)) % 2)]
           ELSE entries[c]]
      Clk(es, b) == [c \in DOMAIN es |-> IF c \in cs THEN [k |-> "num", v |-> WFromNat(b)] ELSE es[c]]
      One(m) == IF cs = {}
                THEN <<[entries |-> Assign(m), checked |-> TRUE]>>
                ELSE <<[entries |-> Clk(Assign(m), 0), checked |-> FALSE],
                       [entries |-> Clk(Assign(m), 1), checked |-> FALSE],
                       [entries |-> Clk(Assign(m), 0), checked |-> TRUE]>>
      RECURSIVE All(_)
      All(m) == IF m = Pow2(K) THEN <<>> ELSE One(m) \o All(m + 1)
  IN  All(0)

-----------------------------------------------------------------------------
\* The run state:
\*   scopes  environment          outs   answer of the latest checked row / constructor
\*   items   what next() returned so far (rows carry the variables in scope, for C18)
\*   calls   the driver calls made so far         used   answers consumed
\*   rpos    draws since the last (re)seed        stop   "" while running
\*   fuel    bound on while iterations (model checking only: excludes diverging programs)
Halt(st, why) == [st EXCEPT !.stop = why]
Emit(st, item) == [st EXCEPT !.items = Append(@, item)]

\* the outputs reported for a checked row answered by `outs` (C03, C13, C14)
NamesOf(outs) == [k \in DOMAIN outs |-> outs[k].s]

RECURSIVE OutVector(_, _, _, _, _, _)
OutVector(ct, st, outs, sigs, k, acc) ==
  \* acc: [ok, vals, rpos]
  IF k > Len(sigs) THEN acc
  ELSE LET sg == sigs[k]
       IN  IF sg.dir = "virt"
           THEN LET r == Eval(sg.vexpr, [env |-> FM_New, outs |-> outs, vars |-> FALSE], st.rs, acc.rpos)
                IN  IF ~r.ok THEN [ok |-> FALSE, vals |-> acc.vals, rpos |-> r.pos, err |-> r.err]
                    ELSE OutVector(ct, st, outs, sigs, k + 1,
                                   [ok |-> TRUE, vals |-> Append(acc.vals, Num(r.v)), rpos |-> r.pos])
           ELSE LET n == PosFrom(NamesOf(outs), sg.name, 1)
                IN  OutVector(ct, st, outs, sigs, k + 1,
                       [acc EXCEPT !.vals = Append(@, IF n = 0 THEN VX ELSE outs[n].v)])

\* one expanded row = one driver call
DoCall(ct, st, xr, line) ==
  IF st.stop # "" THEN st
  ELSE IF Len(st.items) >= st.want THEN Halt(st, "enough")
  ELSE IF st.used >= Len(st.script) THEN Halt(st, "script")
  ELSE
    LET ans == st.script[st.used + 1]
        ins == InVector(ct, xr.entries)
        exps == ExpVector(ct, xr.entries, xr.checked)
        kind == IF xr.checked \/ ~ct.ownWrite THEN "read" ELSE "write"
        st1 == [st EXCEPT !.used = @ + 1, !.calls = Append(@, [kind |-> kind, inputs |-> ins])]
        view == ScopesView(st.scopes)
    IN  IF ans.k = "err"
        THEN Halt(Emit(st1, [k |-> "err", class |-> "driver", id |-> ans.id]), "error")
        ELSE IF ~xr.checked
        THEN Emit(st1, [k |-> "row", line |-> line, inputs |-> ins, outputs |-> <<>>, vars |-> view])
        ELSE
          LET st2 == [st1 EXCEPT !.outs = ans.outs]
          IN  IF NamesOf(ans.outs) # st.layout           \* a different number or order of outputs (C13)
              THEN Halt(Emit(st2, [k |-> "err", class |-> "runtime", id |-> 0]), "error")
              ELSE LET ov == OutVector(ct, st2, ans.outs, SelectSeq(ct.signals, HasExpected), 1,
                                       [ok |-> TRUE, vals |-> <<>>, rpos |-> st2.rpos])
                   IN  IF ~ov.ok
                       THEN Halt(Emit([st2 EXCEPT !.rpos = ov.rpos], [k |-> "err", class |-> "runtime", id |-> 0]), "error")
                       ELSE Emit([st2 EXCEPT !.rpos = ov.rpos],
                                 [k |-> "row", line |-> line, inputs |-> ins, vars |-> view,
                                  outputs |-> [j \in DOMAIN exps |->
                                      [s |-> exps[j].s, out |-> ov.vals[j], exp |-> exps[j].v]]])

RECURSIVE DoCalls(_, _, _, _, _)
DoCalls(ct, st, xrs, j, line) ==
  IF j > Len(xrs) \/ st.stop # "" THEN st
  ELSE DoCalls(ct, DoCall(ct, st, xrs[j], line), xrs, j + 1, line)

EvalA(e, st) == Eval(e, CxA(st), st.rs, st.rpos)

EvalErr(st, r) ==
  \* an expression could not be evaluated: the pending next() yields an error item
  IF Len(st.items) >= st.want THEN Halt(st, "enough")
  ELSE Halt(Emit([st EXCEPT !.rpos = r.pos], [k |-> "err", class |-> "runtime", id |-> 0]), "error")

RECURSIVE ExecBlock(_, _, _, _), LoopIter(_, _, _, _, _), WhileIter(_, _, _)

ExecStmt(ct, s, st) ==
  CASE s.k = "let" ->
         LET r == EvalA(s.e, st)
         IN  IF ~r.ok THEN EvalErr(st, r)
             ELSE [st EXCEPT !.scopes = ScopesBind(st.scopes, s.name, r.v), !.rpos = r.pos]
    [] s.k = "row" ->
         \* a row is only evaluated when its next() is actually called (laziness, C02)
         IF Len(st.items) >= st.want THEN Halt(st, "enough")
         ELSE LET r == EvalEntries(s.entries, 1, CxA(st), st.rs, st.rpos, <<>>)
              IN  IF ~r.ok THEN EvalErr(st, r)
                  ELSE DoCalls(ct, [st EXCEPT !.rpos = r.pos], Expand(ct, r.entries), 1, s.line)
    [] s.k = "loop" ->
         LET r == EvalA(s.max, st)
         IN  IF ~r.ok THEN EvalErr(st, r)
             ELSE IF WLe(r.v, W0) THEN [st EXCEPT !.rpos = r.pos]
             ELSE LET st1 == [st EXCEPT !.rpos = r.pos, !.scopes = Append(@, (s.var :> W0))]
                      st2 == LoopIter(ct, s, W0, r.v, st1)
                  IN  IF st2.stop # "" THEN st2
                      ELSE [st2 EXCEPT !.scopes = SubSeq(@, 1, Len(@) - 1)]
    [] s.k = "while" -> WhileIter(ct, s, st)
    [] s.k = "reset" -> [st EXCEPT !.rpos = IF st.rs.mode = "gen" THEN 0 ELSE @]

ExecBlock(ct, stmts, i, st) ==
  IF st.stop # "" \/ i > Len(stmts) THEN st
  ELSE ExecBlock(ct, stmts, i + 1, ExecStmt(ct, stmts[i], st))

LoopIter(ct, s, k, n, st) ==
  IF st.stop # "" \/ ~WLt(k, n) THEN st
  ELSE LoopIter(ct, s, WAdd(k, W1), n,
                ExecBlock(ct, s.body, 1, [st EXCEPT !.scopes = ScopesBind(st.scopes, s.var, k)]))

WhileIter(ct, s, st) ==
  IF st.stop # "" THEN st
  ELSE LET r == EvalA(s.cond, st)
       IN  IF ~r.ok THEN EvalErr(st, r)
           ELSE IF r.v = W0 THEN [st EXCEPT !.rpos = r.pos]
           ELSE IF st.fuel = 0 THEN Halt(st, "fuel")
           ELSE WhileIter(ct, s, ExecBlock(ct, s.body, 1, [st EXCEPT !.rpos = r.pos, !.fuel = @ - 1]))

\* The whole run.  script[1] answers the constructor.  Result: the final state; .items are the items of
\* the first `want` next() calls, .ctor the constructor's result.
Run(ct, script, rs, want, fuel) ==
  LET st0 == [scopes |-> << <<>> >>, outs |-> <<>>, items |-> <<>>, calls |-> <<>>, used |-> 0,
              rpos |-> 0, stop |-> "", fuel |-> fuel, want |-> want, script |-> script, rs |-> rs,
              layout |-> <<>>, ctor |-> "none"]
      ctorCall == [kind |-> "read",
                   inputs |-> [k \in DOMAIN SelectSeq(ct.signals, IsIn) |->
                                 [s |-> SelectSeq(ct.signals, IsIn)[k].name,
                                  v |-> SelectSeq(ct.signals, IsIn)[k].def]]]
  IN  IF script = <<>> THEN st0
      ELSE LET st1 == [st0 EXCEPT !.used = 1, !.calls = <<ctorCall>>]
               ans == script[1]
           IN  IF ans.k = "err" THEN [st1 EXCEPT !.ctor = "driver", !.stop = "ctor"]
               \* the program reads an output the driver does not supply (C04)
               ELSE IF ~(ct.reads \subseteq {ans.outs[k].s : k \in DOMAIN ans.outs})
                    THEN [st1 EXCEPT !.ctor = "runtime", !.stop = "ctor"]
               ELSE LET st2 == [st1 EXCEPT !.ctor = "ok", !.outs = ans.outs, !.layout = NamesOf(ans.outs)]
                        fin == ExecBlock(ct, ct.prog, 1, st2)
                    IN  IF fin.stop = "" /\ Len(fin.items) < want
                        THEN Emit(fin, [k |-> "none"])
                        ELSE fin
=============================================================================
