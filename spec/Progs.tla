-------------------------------- MODULE Progs --------------------------------
(***************************************************************************)
(* Bounded enumeration of well-nested programs over a statement alphabet,  *)
(* for the model-checking configurations.                                  *)
(*                                                                         *)
(*   Atoms     statements without a body (rows, lets, resetRandom, repeat) *)
(*   Loops     [var, max] headers       Whiles   conditions                *)
(* Blocks(n, d) is the set of statement sequences with exactly n           *)
(* statements in total (nested ones included) and nesting depth <= d.      *)
(* Rows are renumbered 1, 2, ... in source order, which is the order in    *)
(* which the harness's pretty-printer assigns its row ids.                 *)
(***************************************************************************)
EXTENDS Integers, Sequences, FiniteSets

RECURSIVE Blocks(_, _, _, _, _), Stmts(_, _, _, _, _)

Stmts(m, d, Atoms, Loops, Whiles) ==
  (IF m = 1 THEN Atoms ELSE {})
  \cup (IF d = 0 THEN {}
        ELSE {[k |-> "loop", var |-> h.var, max |-> h.max, body |-> b] :
                 h \in Loops, b \in Blocks(m - 1, d - 1, Atoms, Loops, Whiles)}
             \cup {[k |-> "while", cond |-> c, body |-> b] :
                 c \in Whiles, b \in Blocks(m - 1, d - 1, Atoms, Loops, Whiles)})

Blocks(n, d, Atoms, Loops, Whiles) ==
  IF n = 0 THEN {<<>>}
  ELSE UNION {{<<s>> \o rest : s \in Stmts(m, d, Atoms, Loops, Whiles),
                               rest \in Blocks(n - m, d, Atoms, Loops, Whiles)} : m \in 1..n}

ProgsUpTo(n, d, Atoms, Loops, Whiles) ==
  UNION {Blocks(k, d, Atoms, Loops, Whiles) : k \in 1..n}

\* number the rows in source order
RECURSIVE Renum(_, _, _)
Renum(stmts, i, next) ==          \* -> [stmts, next]
  IF i > Len(stmts) THEN [stmts |-> <<>>, next |-> next]
  ELSE LET s == stmts[i]
           one == CASE s.k = "row" -> [s |-> [s EXCEPT !.line = next], next |-> next + 1]
                    [] s.k \in {"loop", "while"} ->
                         LET b == Renum(s.body, 1, next)
                         IN  [s |-> [s EXCEPT !.body = b.stmts], next |-> b.next]
                    [] OTHER -> [s |-> s, next |-> next]
           rest == Renum(stmts, i + 1, one.next)
       IN  [stmts |-> <<one.s>> \o rest.stmts, next |-> rest.next]

Renumber(prog) == Renum(prog, 1, 1).stmts

RECURSIVE HasRow(_)
HasRow(stmts) ==
  \E i \in DOMAIN stmts :
     \/ stmts[i].k = "row"
     \/ stmts[i].k \in {"loop", "while"} /\ HasRow(stmts[i].body)
=============================================================================
