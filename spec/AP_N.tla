-------------------------------- MODULE AP_N --------------------------------
(* The shift count / width of one instance of AP_Word64At.  bin/check writes a copy of this module per instance *)
(* (N == 0 .. N == 64) so that the count is a literal and every product in the instance has a constant factor. *)
N == 21
=============================================================================
