---------------------------- MODULE Trace_Interp ----------------------------
(***************************************************************************)
(* Trace validation (implementation -> specification) for the row iterator.*)
(*                                                                         *)
(* The harness runs the real crate and writes one NDJSON line per public   *)
(* call, with its arguments, the driver calls it caused, the driver's      *)
(* answer, the draws it consumed and its result.  This module consumes the *)
(* lines one by one; for each it computes what Interp (level B) yields from*)
(* the current specification state and the logged environment inputs and   *)
(* compares.  Because every environment input is logged, the specification *)
(* is deterministic along a trace and validation is linear.                *)
(*                                                                         *)
(* A mismatch does not block: it is recorded as <<run, line, code>> in     *)
(* `diag` and the rest of that run is skipped, so one rejection never      *)
(* hides the following runs.  Acceptance = every line consumed (checked by *)
(* the POSTCONDITION) and diag empty (reported by the POSTCONDITION as     *)
(* JSON and turned into VIOLATION lines by bin/check).                     *)
(*                                                                         *)
(* Besides the comparison with Interp, predicates that need no prediction  *)
(* are evaluated on the log alone (codes proto.* for C02, attr.* for C03,  *)
(* changed.* for C06, rng.* for C17), so that each property has a verdict  *)
(* that is independent of the others as far as its statement allows.       *)
(***************************************************************************)
EXTENDS Interp, Json, IOUtils, TLC, SequencesExt

Rec == ndJsonDeserialize(IOEnv.TRACE)

VARIABLES l,        \* next line to consume
          run,      \* id of the current run
          ct,       \* compiled test of the current run
          its,      \* iterator id -> [live, it, lastIn]
          skip,     \* the rest of this run is skipped (after a diagnostic)
          diag      \* set of <<run, line, code>>
vars == <<l, run, ct, its, skip, diag>>

NoCt == [none |-> TRUE]

Init == /\ l = 1 /\ run = 0 /\ ct = NoCt /\ its = <<>> /\ skip = TRUE /\ diag = {}
        /\ TLCSet(42, [group |-> 0, load |-> "", items |-> <<>>, whole |-> FALSE])

-----------------------------------------------------------------------------
\* Helpers on logged records
SameSV(a, b) ==        \* same signals and values, position by position
  /\ Len(a) = Len(b)
  /\ \A k \in DOMAIN a : a[k].s = b[k].s /\ a[k].v = b[k].v

SameCall(a, b) == a.kind = b.kind /\ SameSV(a.inputs, b.inputs)

\* C06, the two implications about `changed`:
\*   changed = FALSE  =>  same value as in the previous vector handed to the driver
\*   inputs the header omits are never flagged
ChangedSound(c, inputs, lastIn) ==
  \A k \in DOMAIN inputs :
     /\ ~inputs[k].ch => (k \in DOMAIN lastIn /\ lastIn[k].s = inputs[k].s /\ lastIn[k].v = inputs[k].v)
     /\ c.inIdx[k].ent = 0 => ~inputs[k].ch

\* C03 on the log alone: the reported output is what the answer of this very
\* call holds for that signal (X if the layout lacks it); verdicts follow
\* the X/Z rules
AnswerValue(outs, name) ==
  LET n == FirstPos(outs, name, 1) IN IF n = 0 THEN VX ELSE outs[n].v

\* C13's clause: a value the driver reported for a DIFFERENT signal shows up under this one
Misattributed(c, outputs, outs) ==
  \E k \in DOMAIN outputs :
     LET sg == c.signals[c.expIdx[k].sig]
     IN  /\ sg.dir # "virt"
         /\ outputs[k].out # AnswerValue(outs, outputs[k].s)
         /\ \E j \in DOMAIN outs : outs[j].s # outputs[k].s /\ outs[j].v = outputs[k].out

AttrOutputs(c, outputs, outs) ==
  \A k \in DOMAIN outputs :
     LET sg == c.signals[c.expIdx[k].sig]
     IN  sg.dir # "virt" => outputs[k].out = AnswerValue(outs, outputs[k].s)

FailingSet(outputs) ==
  {outputs[k].s : k \in {k \in DOMAIN outputs : ~Check(outputs[k].exp, outputs[k].out)}}

AttrVerdicts(row) ==
  /\ \A k \in DOMAIN row.outputs :
        /\ row.outputs[k].check = Check(row.outputs[k].exp, row.outputs[k].out)
        /\ row.outputs[k].is_checked = IsChecked(row.outputs[k].exp)
  /\ {row.failing[k] : k \in DOMAIN row.failing} = FailingSet(row.outputs)
  /\ Len(row.failing) = Cardinality(FailingSet(row.outputs))

\* C02 on the log alone
ProtoRow(c, r) ==
  /\ Len(r.calls) = 1
  /\ SameSV(r.calls[1].inputs, r.item.inputs)
  /\ \A k \in DOMAIN r.item.inputs : r.calls[1].inputs[k].ch = r.item.inputs[k].ch
  /\ (r.item.outputs # <<>>) => r.calls[1].kind = "read"
  /\ (r.item.outputs = <<>> /\ c.ownWrite /\ Len(c.expIdx) > 0) => r.calls[1].kind = "write"

VarsSet(v) == {<<v[k].n, v[k].v>> : k \in DOMAIN v}

-----------------------------------------------------------------------------
Flag(code) == /\ PrintT(<<"DIAG", run, l, code>>)
              /\ diag' = diag \cup {<<run, l, code>>}
              /\ skip' = TRUE
              /\ UNCHANGED <<run, ct, its>>

Quiet == UNCHANGED <<run, ct, its, skip, diag>>

\* the supplied signals appear in the observed list in the supplied order,
\* followed or interleaved by exactly one 64-bit virtual signal per declaration
RECURSIVE IsSubseq(_, _, _, _)
IsSubseq(a, i, b, j) ==
  IF i > Len(a) THEN TRUE
  ELSE IF j > Len(b) THEN FALSE
  ELSE IF a[i] = b[j] THEN IsSubseq(a, i + 1, b, j + 1)
  ELSE IsSubseq(a, i, b, j + 1)

Plain(s) == [name |-> s.name, bits |-> s.bits, dir |-> s.dir, def |-> s.def]

ObservedOk(t) ==
  LET virt == SelectSeq(t.observed, LAMBDA s : s.dir = "virt")
      rest == SelectSeq(t.observed, LAMBDA s : s.dir # "virt")
  IN  /\ [k \in DOMAIN rest |-> Plain(rest[k])] = [k \in DOMAIN t.supplied |-> Plain(t.supplied[k])]
      /\ Len(virt) = Len(t.decls)
      /\ \A j \in DOMAIN t.decls : \E k \in DOMAIN virt :
            virt[k].name = t.decls[j].name /\ virt[k].bits = 64 /\ virt[k].vexpr = t.decls[j].e

\* Loading: the text parses (the generator only writes valid programs) and binds exactly when Bind says so (C11)
Begin(r) ==
  LET t == r.test
      bind == BindResult(t.header, t.supplied, t.decls, CCols(t.prog, 1), Reads(t.prog, t.decls))
      code == IF r.load = "panic" THEN "panic.load"
              ELSE IF r.load = "parse" THEN "load"
              ELSE IF r.load = "bind" /\ bind = "ok" THEN "load"
              ELSE IF r.load = "ok" /\ bind # "ok" THEN "bind.accept"
              ELSE IF r.load = "ok" /\ ~ObservedOk(t) THEN "signals"
              \* which of the binder's checks refuses (their order is the code's; no listed property fixes it: owned by none)
              ELSE IF r.load = "bind" /\ "load_class" \in DOMAIN r /\ r.load_class # bind THEN "bind.kind"
              ELSE "ok"
  IN
  /\ run' = r.run
  /\ its' = <<>>
  /\ IF code = "ok" /\ r.load = "ok"
     THEN /\ ct' = Compile(t.header, t.observed, t.prog, t.decls, r.own_write)
          /\ skip' = FALSE
          /\ diag' = diag
     ELSE /\ ct' = NoCt
          /\ skip' = TRUE
          /\ IF code = "ok" THEN diag' = diag
             ELSE /\ PrintT(<<"DIAG", r.run, l, code>>)
                  /\ diag' = diag \cup {<<r.run, l, code>>}

\* the constructor
TryIterLine(r) ==
  LET want == CtorCall(ct)
      fin == CtorFinish(ct, r.answer)
  IN  IF r.res.k = "panic" THEN Flag("panic")
      ELSE IF Len(r.calls) # 1 THEN Flag("proto.ctor")
      ELSE IF ~(SameCall(r.calls[1], want) /\ \A k \in DOMAIN want.inputs : ~r.calls[1].inputs[k].ch)
           THEN Flag("proto.ctor")
      ELSE IF r.res.k # fin.res THEN Flag("ctor.res")
      ELSE IF fin.res = "driver" /\ r.res.id # fin.id THEN Flag("fault.identity")
      ELSE /\ its' = (r.it :> [live |-> fin.res = "ok",
                               it |-> IF fin.res = "ok" THEN fin.it ELSE NewIt(ct),
                               lastIn |-> want.inputs, posterr |-> FALSE, dyn |-> <<>>,
                               rng |-> [hist |-> <<>>, pos |-> 0]]) @@ its
           /\ UNCHANGED <<run, ct, skip, diag>>

\* Which kind of entry differs first (so that a property only answers for the entries it speaks about): the shape of the
\* vector and the default of an input the header omits belong to C06 alone, as does the X of a signal without a column
\* (for a virtual signal also to C14); values that come from the program's entries belong to whoever prescribes them.
MinOf(S) == CHOOSE x \in S : \A y \in S : x <= y
InputsCode(oi, pi) ==
  IF Len(oi) # Len(pi) \/ \E k \in DOMAIN pi : oi[k].s # pi[k].s THEN "row.inputs.shape"
  ELSE LET k == MinOf({j \in DOMAIN pi : oi[j].v # pi[j].v})
       IN  IF ct.inIdx[k].ent = 0 THEN "row.inputs.default" ELSE "row.inputs"
ExpectedCode(oo, po) ==
  LET k == MinOf({j \in DOMAIN po : oo[j].exp # po[j].exp})
      virt == ct.signals[ct.expIdx[k].sig].dir = "virt"
  IN  IF ct.expIdx[k].ent = 0 THEN (IF virt THEN "row.expected.vdefault" ELSE "row.expected.default")
      ELSE IF virt THEN "row.expected.virt" ELSE "row.expected"

\* one next() call
CompareRow(e, c, ret, r) ==
  \* ret.item is the predicted row, r.item the logged one; returns a code or "ok"
  LET p == ret.item
      o == r.item
  \* (the CONTENT of the row first: a row that is not the predicted one at all - another source row, another expansion - is
  \* reported by what it contains; `row.line` is left for a row that is the predicted one in everything but its line)
  IN  IF ~SameSV(o.inputs, p.inputs) THEN InputsCode(o.inputs, p.inputs)
      ELSE IF ~ChangedSound(ct, o.inputs, e.lastIn) THEN "changed"
      ELSE IF Len(o.outputs) # Len(p.outputs) THEN "row.outputs.len"
      ELSE IF \E k \in DOMAIN p.outputs : o.outputs[k].s # p.outputs[k].s THEN "row.outputs.sig"
      ELSE IF \E k \in DOMAIN p.outputs : o.outputs[k].exp # p.outputs[k].exp THEN ExpectedCode(o.outputs, p.outputs)
      ELSE IF o.line # p.line THEN "row.line"
      ELSE IF ~AttrOutputs(ct, o.outputs, r.answer.outs)
           THEN (IF Misattributed(ct, o.outputs, r.answer.outs) THEN "attr.mis" ELSE "attr.output")
      ELSE IF \E k \in DOMAIN p.outputs : o.outputs[k].out # p.outputs[k].out THEN "row.output"
      ELSE IF ~AttrVerdicts(o) THEN "attr.verdict"
      ELSE IF VarsSet(r.vars) # Vars(ret.it) THEN "vars"
      ELSE "ok"

\* C17 on the log alone: resetRandom restarts the generator, so that, while the bounds repeat, the draws
\* repeat the values drawn from the start of the run.  st = [hist, pos]: the draws since the start (as far as
\* they are still reproducible) and the replay position.
RECURSIVE RngFold(_, _, _)
RngFold(st, tape, j) ==
  IF j > Len(tape) THEN [ok |-> TRUE, st |-> st]
  ELSE LET t == tape[j]
       IN  IF t.r THEN RngFold([st EXCEPT !.pos = 0], tape, j + 1)
           ELSE IF st.pos < Len(st.hist)
                THEN IF st.hist[st.pos + 1].b = t.b
                     THEN IF st.hist[st.pos + 1].v = t.v THEN RngFold([st EXCEPT !.pos = @ + 1], tape, j + 1)
                          ELSE [ok |-> FALSE, st |-> st]
                     ELSE \* the bounds diverge from the first pass: nothing is promised from here on
                          RngFold([hist |-> Append(SubSeq(st.hist, 1, st.pos), [b |-> t.b, v |-> t.v]), pos |-> st.pos + 1], tape, j + 1)
                ELSE RngFold([hist |-> Append(st.hist, [b |-> t.b, v |-> t.v]), pos |-> st.pos + 1], tape, j + 1)

\* C14 on the log alone: a virtual signal's output is its expression over the outputs of this very answer,
\* with no variable visible
VirtualOutputs(c, outputs, outs) ==
  \A k \in DOMAIN outputs :
     LET sg == c.signals[c.expIdx[k].sig]
     \* (a declaration that calls random() is judged by the prediction, which threads the draws: C17)
     IN  (sg.dir = "virt" /\ ~ExprRandom(sg.vexpr)) =>
           LET v == Eval(sg.vexpr, [env |-> FM_New, outs |-> outs, vars |-> FALSE], [mode |-> "log", tape |-> <<>>], 0)
           IN  v.ok /\ outputs[k].out = Num(v.v)

\* After an error item the properties do not say how (or whether) the iteration goes on.  The specification
\* keeps following the implementation as long as it agrees about which row comes next; a disagreement about the
\* control flow after an error is not a violation (the run is no longer followed), but whatever row IS yielded
\* must still satisfy the predicates on the log alone and, where the rows agree, report the right outputs and vars().
PostErrTolerated == {"item.kind", "item.class", "row.line", "row.inputs", "row.inputs.default", "row.inputs.shape", "call.kind",
                     "row.expected", "row.expected.default", "row.expected.vdefault", "row.expected.virt", "row.outputs.len",
                     "row.outputs.sig", "rng.tape", "fault.lost", "fault.deviation", "fault.identity"}

\* C02 on the log alone: the driver calls of one next() are accounted for by its item
ProtoItem(c, r) ==
  CASE r.item.k = "none" -> r.calls = <<>>
    [] r.item.k = "row" -> ProtoRow(c, r)
    [] r.item.k = "err" -> IF r.item.class = "driver" THEN Len(r.calls) = 1 ELSE Len(r.calls) <= 1
    [] OTHER -> TRUE

NextLine(r) ==
  LET e == its[r.it]
      rs == [mode |-> "log", tape |-> r.rng]
      rf == RngFold(e.rng, r.rng, 1)
      \* flag, unless the code is one of those tolerated after an error item
      FlagT(code) == IF e.posterr /\ code \in PostErrTolerated
                     THEN /\ skip' = TRUE /\ UNCHANGED <<run, ct, its, diag>>
                     ELSE Flag(code)
      \* an item that is not the predicted one is still part of what this run yielded: it is kept (as the crate reported
      \* it) for the comparisons BETWEEN real runs (layout groups, C20), which must not depend on the prediction
      RowView(off) == [k |-> "row", line |-> r.item.line, off |-> off, inputs |-> r.item.inputs,
                       exp |-> [n \in DOMAIN r.item.outputs |-> [s |-> r.item.outputs[n].s, v |-> r.item.outputs[n].exp]]]
      \* (pl: the line the specification predicts for this item; the item's own line where there is no prediction)
      ItemViewAt(pl) == IF r.item.k = "row" THEN RowView(r.item.line - pl) ELSE [k |-> "odd"]
      FlagRow(code, view) ==
        /\ its' = [its EXCEPT ![r.it].dyn = Append(@, view)]
        /\ skip' = TRUE
        /\ UNCHANGED <<run, ct>>
        /\ IF e.posterr /\ code \in PostErrTolerated THEN UNCHANGED diag
           ELSE PrintT(<<"DIAG", run, l, code>>) /\ diag' = diag \cup {<<run, l, code>>}
      \* the reason of the error item (division by zero, unassigned variable, Z/X read, wrong number / order of
      \* outputs, the driver's own error) is predicted too; no listed property fixes it, so a difference is a note
      \* (item.why, owned by none) and the run is followed on
      \* (evalErr: the error arose while the row was being EVALUATED - where the iteration goes on from there the properties do
      \* not say, hence the tolerance of PostErrTolerated.  An error that arose AFTER the row's exchange with the driver - the
      \* driver's own error, a deviating answer, a virtual signal that cannot be computed over the answer - leaves the program where
      \* every reading puts it: behind that row; what follows is compared like any other row)
      AfterError(it1, lastIn, why, evalErr) ==
        /\ its' = [its EXCEPT ![r.it].it = it1, ![r.it].lastIn = lastIn, ![r.it].posterr = (@ \/ evalErr), ![r.it].rng = rf.st,
                              ![r.it].dyn = Append(@, [k |-> "other"])]
        /\ IF "why" \in DOMAIN r.item /\ r.item.why # why
           THEN /\ PrintT(<<"DIAG", run, l, "item.why">>) /\ diag' = diag \cup {<<run, l, "item.why">>}
           ELSE diag' = diag
        /\ UNCHANGED <<run, ct, skip>>
  IN
  \E c \in {NextCall(ct, e.it, rs, 0)} :      \* bound through a singleton set: evaluated exactly once
  IF r.item.k = "panic" THEN Flag("panic")
  ELSE IF ~ProtoItem(ct, r) THEN Flag("proto.item")
  ELSE IF ~rf.ok THEN Flag("rng.replay")
  ELSE IF c.k = "none" THEN
       IF c.pos # Len(r.rng) THEN FlagT("rng.tape")
       ELSE IF r.item.k # "none" THEN FlagRow("item.kind", ItemViewAt(r.item.line))
       ELSE \* the iterator stays usable: further next() calls must again return None without a call
            /\ its' = [its EXCEPT ![r.it].it = c.it, ![r.it].rng = rf.st]
            /\ UNCHANGED <<run, ct, skip, diag>>
  ELSE IF c.k = "err" THEN
       IF c.err \in {"tape", "tape_range"} THEN (IF c.err = "tape" THEN FlagT("rng.tape") ELSE Flag("rng.range"))
       ELSE IF c.err \in {"range", "unimpl"} /\ r.item.k \in {"row", "err"}
            THEN \* the properties allow an error item or a value here; stop following this run
                 /\ skip' = TRUE /\ UNCHANGED <<run, ct, its, diag>>
       ELSE IF c.pos # Len(r.rng) THEN FlagT("rng.tape")
       ELSE IF r.item.k # "err" \/ r.calls # <<>> THEN FlagRow("item.kind", ItemViewAt(r.item.line))
       ELSE IF r.item.class # "runtime" THEN FlagT("item.class")
       ELSE AfterError(c.it, e.lastIn, c.err, TRUE)
  ELSE \* a driver call is due
       IF r.calls = <<>> THEN FlagRow("item.kind", [k |-> "odd"])
       ELSE IF r.calls[1].kind # c.call.kind THEN FlagRow("call.kind", ItemViewAt(c.row.line))
       ELSE IF ~SameSV(r.calls[1].inputs, c.call.inputs) THEN FlagRow(InputsCode(r.calls[1].inputs, c.call.inputs), ItemViewAt(c.row.line))
       ELSE
         \E ret \in {NextReturn(ct, c.it, c.row, r.answer, rs, c.pos)} :
         LET p == ret.item
         IN  IF p.k = "err" /\ p.why \in {"tape", "tape_range"}
                THEN (IF p.why = "tape" THEN FlagT("rng.tape") ELSE Flag("rng.range"))
             ELSE IF p.k = "err" /\ p.why \in {"range", "unimpl"} /\ r.item.k \in {"row", "err"}
                THEN /\ skip' = TRUE /\ UNCHANGED <<run, ct, its, diag>>
             ELSE IF ret.pos # Len(r.rng) THEN FlagT("rng.tape")
             ELSE IF r.item.k = "row" /\ ~VirtualOutputs(ct, r.item.outputs, r.answer.outs) THEN Flag("attr.virtual")
             ELSE IF r.item.k # p.k THEN
                  FlagRow(IF p.k = "err" /\ p.class = "driver" THEN "fault.lost"
                          ELSE IF p.k = "err" /\ p.why \in {"count", "order"} THEN "fault.deviation"
                          ELSE "item.kind", [k |-> "odd"])
             ELSE IF p.k = "err" THEN
                  IF r.item.class # p.class THEN FlagT("item.class")
                  ELSE IF p.class = "driver" /\ r.item.id # p.id THEN FlagT("fault.identity")
                  ELSE AfterError(ret.it, r.calls[1].inputs, p.why, FALSE)
             ELSE \* a row
                  LET code == CompareRow(e, c, ret, r)
                  IN  IF code # "ok" THEN FlagRow(code, RowView(r.item.line - ret.item.line))
                      ELSE /\ its' = [its EXCEPT ![r.it].it = ret.it,
                                                 ![r.it].lastIn = r.item.inputs, ![r.it].rng = rf.st,
                                                 ![r.it].dyn = Append(@, [k |-> "row", line |-> r.item.line, off |-> r.item.line - ret.item.line, inputs |-> r.item.inputs,
                                                     exp |-> [n \in DOMAIN r.item.outputs |-> [s |-> r.item.outputs[n].s, v |-> r.item.outputs[n].exp]]])]
                           /\ UNCHANGED <<run, ct, skip, diag>>

\* ---- static iteration (C15): try_iter_static succeeds exactly when the program reads no output; it then yields
\* the inputs, expected values and lines of a run against a driver that never supplies anything
EmptyAns == [k |-> "ok", outs |-> <<>>]

TryIterStaticLine(r) ==
  LET wantOk == ct.reads = {}
  IN  IF r.res.k = "panic" THEN Flag("panic")
      ELSE IF (r.res.k = "ok") # wantOk THEN Flag("static.accept")
      ELSE /\ its' = (r.it :> [live |-> wantOk,
                               it |-> IF wantOk THEN CtorFinish(ct, EmptyAns).it ELSE NewIt(ct),
                               lastIn |-> DefaultInputs(ct), posterr |-> FALSE, dyn |-> <<>>,
                               rng |-> [hist |-> <<>>, pos |-> 0]]) @@ its
           /\ UNCHANGED <<run, ct, skip, diag>>

NextStaticLine(r) ==
  LET e == its[r.it]
      rs == [mode |-> "log", tape |-> r.rng]
  IN
  \E c \in {NextCall(ct, e.it, rs, 0)} :
  IF r.item.k = "panic" THEN Flag("panic")
  ELSE IF c.k = "none" THEN
       IF r.item.k # "none" THEN Flag("static.rows")
       ELSE /\ its' = [its EXCEPT ![r.it].it = c.it] /\ UNCHANGED <<run, ct, skip, diag>>
  ELSE IF c.k = "err" THEN
       IF c.err \in {"range", "unimpl", "tape", "tape_range"} THEN /\ skip' = TRUE /\ UNCHANGED <<run, ct, its, diag>>
       ELSE IF r.item.k # "err" THEN Flag("static.rows")
       ELSE /\ skip' = TRUE /\ UNCHANGED <<run, ct, its, diag>>
  ELSE \E ret \in {NextReturn(ct, c.it, c.row, EmptyAns, rs, c.pos)} :
       LET p == ret.item
       IN  IF p.k = "err" THEN (IF r.item.k = "err" THEN /\ skip' = TRUE /\ UNCHANGED <<run, ct, its, diag>> ELSE Flag("static.rows"))
           ELSE IF r.item.k # "row" THEN Flag("static.rows")
           ELSE IF r.item.line # p.line THEN Flag("static.line")
           ELSE IF ~SameSV(r.item.inputs, p.inputs) THEN Flag("static.rows")
           ELSE IF Len(r.item.expected) # Len(p.outputs) THEN Flag("static.rows")
           ELSE IF \E k \in DOMAIN p.outputs : r.item.expected[k].s # p.outputs[k].s \/ r.item.expected[k].v # p.outputs[k].exp
                THEN Flag("static.rows")
           \* C15, on the log alone: the static row equals, flags included, the row every dynamic iterator yielded at
           \* the same position (error items aside), whatever its driver returned
           ELSE IF ~UsesRandom(ct.prog) /\ \E j \in DOMAIN its : j # r.it /\
                     LET i == Len(e.dyn) + 1
                     IN  /\ i <= Len(its[j].dyn) /\ its[j].dyn[i].k = "row"
                         /\ \/ its[j].dyn[i].line # r.item.line
                            \/ its[j].dyn[i].inputs # r.item.inputs
                            \/ (its[j].dyn[i].exp # <<>> /\ its[j].dyn[i].exp # r.item.expected)
                THEN Flag("static.differ")
           ELSE /\ its' = [its EXCEPT ![r.it].it = ret.it, ![r.it].dyn = Append(@, [k |-> "row"])]
                /\ UNCHANGED <<run, ct, skip, diag>>

\* ---- layout groups (C20): the runs of a group are one test printed in different layouts, run against the same
\* driver.  On the log alone: every variant loads like the first one and yields the same items - inputs with their
\* flags, expected values - and each row's line differs from where the printer put it by the same amount as in the
\* first variant (so the line shifts by exactly the lines inserted above the row).  The first variant's items are
\* kept in a TLC register between runs (trace validation runs on one worker).
GroupView(d) == [n \in DOMAIN d |-> IF d[n].k = "row" THEN [k |-> "row", off |-> d[n].off, inputs |-> d[n].inputs, exp |-> d[n].exp]
                                     ELSE [k |-> IF d[n].k = "odd" THEN "odd" ELSE "other", off |-> 0, inputs |-> <<>>, exp |-> <<>>]]
\* Static = dynamic, item by item (rows: line, input vector with flags, expected values; error items and the end in the same
\* places), up to the first dynamic item that a static run cannot have (an error of the driver or about its answer) and as
\* far as both were recorded.  Mid-clock rows of the dynamic run carry no expected values.
StaticAgrees(S, D) ==
  LET stops == {i \in DOMAIN D : D[i].k = "err" /\ D[i].why \in {"driver", "count", "order", "missing", "other"}}
      lim == IF stops = {} THEN Len(D) ELSE MinOf(stops) - 1
      n == IF Len(S) < lim THEN Len(S) ELSE lim
  IN  \A i \in 1..n :
        /\ S[i].k = D[i].k
        /\ S[i].k = "row" => /\ S[i].line = D[i].line
                              /\ S[i].inputs = D[i].inputs
                              /\ (D[i].expected = <<>> \/ S[i].expected = D[i].expected)

EndLine(r) ==
  IF r.group = 0 THEN Quiet
  ELSE LET mine == IF 1 \in DOMAIN its THEN GroupView(its[1].dyn) ELSE <<>>
           first == TLCGet(42)
       IN  IF first.group # r.group
           THEN TLCSet(42, [group |-> r.group, load |-> r.load, items |-> mine, whole |-> ~skip]) /\ Quiet
           ELSE IF first.load # r.load THEN Flag("layout.verdict")
           ELSE LET n == IF Len(mine) < Len(first.items) THEN Len(mine) ELSE Len(first.items)
                IN  IF SubSeq(mine, 1, n) # SubSeq(first.items, 1, n) THEN Flag("layout.rows")
                    \* both runs were followed to their end: then they must be equally long, too
                    ELSE IF first.whole /\ ~skip /\ Len(mine) # Len(first.items) THEN Flag("layout.rows")
                    ELSE Quiet

Step ==
  /\ l <= Len(Rec)
  /\ l' = l + 1
  /\ LET r == Rec[l]
     IN  IF r.ev = "begin" THEN Begin(r)
         ELSE IF r.ev = "end" THEN EndLine(r)
         \* C15, differential, computed by the harness from two real runs: the first iterator's items while the others were
         \* stepped in between = its items when it runs alone against the same answers
         ELSE IF r.ev = "solo" THEN (IF r.same THEN Quiet ELSE Flag("sched.differ"))
         \* C15, differential: the items of the static iteration against the items of the first dynamic iterator
         \* (a program that draws random numbers is excluded: the property speaks of everything but the drawn values)
         ELSE IF r.ev = "static_dynamic" THEN (IF UsesRandom(ct.prog) \/ StaticAgrees(r.sseq, r.dseq) THEN Quiet ELSE Flag("static.differ"))
         ELSE IF skip THEN Quiet
         ELSE IF r.ev = "try_iter" THEN TryIterLine(r)
         ELSE IF r.ev = "next" THEN
                IF r.it \in DOMAIN its /\ its[r.it].live THEN NextLine(r)
                ELSE Flag("harness.dead")
         ELSE IF r.ev = "try_iter_static" THEN TryIterStaticLine(r)
         ELSE IF r.ev = "next_static" THEN
                IF r.it \in DOMAIN its /\ its[r.it].live THEN NextStaticLine(r)
                ELSE Flag("harness.dead")
         ELSE Flag("harness.event")

Spec == Init /\ [][Step]_vars

-----------------------------------------------------------------------------
\* Acceptance: every line was consumed.  Diagnostics are printed for bin/check.
Accepted ==
  /\ PrintT(<<"LINES", Len(Rec)>>)
  /\ TLCGet("stats").diameter = Len(Rec) + 1
=============================================================================
