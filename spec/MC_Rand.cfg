SPECIFICATION Spec
CONSTANTS
  MaxSize = 2
  MaxDepth = 1
  MaxRows = 6
  EmitReplay = FALSE
  GLen = 3
INVARIANTS Refines CallsAgree FrameDiscipline
CHECK_DEADLOCK FALSE
