-------------------------------- MODULE Expr --------------------------------
(***************************************************************************)
(* Big-step evaluation of test expressions (property C08; the error cases  *)
(* of C10; the draw discipline of C17).  Level A and level B coincide here:*)
(* the code's evaluator is already a structural recursion.                 *)
(*                                                                         *)
(* Expressions are records                                                 *)
(*   [k |-> "num", v |-> Word]            [k |-> "id", name |-> STRING]    *)
(*   [k |-> "un", op, e]   [k |-> "bin", op, l, r]   [k |-> "fn", name, args] *)
(*                                                                         *)
(* A lookup context cx is [env, outs, vars]: env a framed map (FramedMap), *)
(* outs the sequence of [s, v] the driver returned in the latest           *)
(* output-reading call, vars = FALSE hides the variables (virtual signals).*)
(*                                                                         *)
(* Random source rs:                                                       *)
(*   [mode |-> "log", tape |-> Seq([r: BOOLEAN, b: Word, v: Word])]        *)
(*        draws and reset markers logged from the implementation; position *)
(*        pos indexes the tape.                                            *)
(*   [mode |-> "gen", g |-> Seq(Nat)]                                      *)
(*        model checking: the k-th draw since the last (re)seed with bound *)
(*        b yields g[k] % b (g used cyclically); pos counts draws since    *)
(*        the last (re)seed.                                               *)
(*                                                                         *)
(* Eval returns [ok |-> TRUE, v |-> Word, pos] or [ok |-> FALSE, err, pos] *)
(* with err one of                                                         *)
(*   "signal"  a device output read as Z or X              (C04)           *)
(*   "unbound" a name that is neither assigned nor supplied (C10)          *)
(*   "div0"    division or remainder by zero               (C10)           *)
(*   "range"   random(n) with n <= 1                        (C10)          *)
(*   "unimpl"  signExt                                      (C10)          *)
(*   "tape"    the implementation's draw log does not match the draws the  *)
(*             specification performs (C17: one draw per evaluation, none  *)
(*             for the unselected branch of ite)                           *)
(*   "tape_range"  a logged draw outside 0 .. n-1           (C17)          *)
(***************************************************************************)
EXTENDS Values, FramedMap

Ok(v, pos) == [ok |-> TRUE, v |-> v, pos |-> pos]
Err(e, pos) == [ok |-> FALSE, err |-> e, pos |-> pos]

\* the value the driver returned for signal `name`: a later entry overrides
\* an earlier one of the same name, as collecting into a map does
RECURSIVE OutsGet(_, _, _)
OutsGet(outs, name, i) ==
  IF i = 0 THEN [found |-> FALSE]
  ELSE IF outs[i].s = name THEN [found |-> TRUE, v |-> outs[i].v]
  ELSE OutsGet(outs, name, i - 1)

\* level A keeps the environment as a stack of functions (see Sem.tla); innermost scope wins
ScopesGet(scopes, name) ==
  LET hits == {k \in DOMAIN scopes : name \in DOMAIN scopes[k]}
  IN  IF hits = {} THEN [found |-> FALSE]
      ELSE [found |-> TRUE, v |-> scopes[CHOOSE k \in hits : \A j \in hits : j <= k][name]]

\* a variable in scope takes precedence over a device output (C04)
Lookup(cx, name) ==
  LET r == IF ~cx.vars THEN [found |-> FALSE]
           ELSE IF "scopes" \in DOMAIN cx THEN ScopesGet(cx.scopes, name)
           ELSE FM_Get(cx.env, name)
  IN  IF r.found THEN [found |-> TRUE, v |-> Num(r.v)]
      ELSE OutsGet(cx.outs, name, Len(cx.outs))

UnOp(op, a) ==
  CASE op = "-" -> WNeg(a)
    [] op = "!" -> WBool(a = W0)
    [] op = "~" -> WNot(a)

BinOp(op, a, b) ==
  CASE op = "="  -> WBool(a = b)
    [] op = "!=" -> WBool(a # b)
    [] op = ">"  -> WBool(WLt(b, a))
    [] op = "<"  -> WBool(WLt(a, b))
    [] op = ">=" -> WBool(WLe(b, a))
    [] op = "<=" -> WBool(WLe(a, b))
    [] op = "|"  -> WOr(a, b)
    [] op = "^"  -> WXor(a, b)
    [] op = "&"  -> WAnd(a, b)
    [] op = "<<" -> WShl(a, b)
    [] op = ">>" -> WShr(a, b)
    [] op = "+"  -> WAdd(a, b)
    [] op = "-"  -> WSub(a, b)
    [] op = "*"  -> WMul(a, b)
    [] op = "/"  -> WDiv(a, b)
    [] op = "%"  -> WRem(a, b)

\* one draw with bound `bound` (already known to be >= 2)
Draw(rs, pos, bound) ==
  IF rs.mode = "gen"
  THEN IF rs.g = <<>> THEN Err("tape", pos)
       ELSE Ok(WFromNat(rs.g[(pos % Len(rs.g)) + 1] % bound[4]), pos + 1)   \* model bounds are small; g is used cyclically
  ELSE IF pos >= Len(rs.tape) THEN Err("tape", pos)
       ELSE LET t == rs.tape[pos + 1]
            IN  IF t.r THEN Err("tape", pos)
                ELSE IF t.b # bound THEN Err("tape", pos)
                ELSE IF WIsNeg(t.v) \/ ~WLt(t.v, bound) THEN Err("tape_range", pos)
                ELSE Ok(t.v, pos + 1)

RECURSIVE Eval(_, _, _, _)
Eval(e, cx, rs, pos) ==
  CASE e.k = "num" -> Ok(e.v, pos)
    [] e.k = "id" ->
         LET r == Lookup(cx, e.name)
         IN  IF ~r.found THEN Err("unbound", pos)
             ELSE IF r.v.t = "n" THEN Ok(r.v.w, pos)
             ELSE Err("signal", pos)
    [] e.k = "un" ->
         LET a == Eval(e.e, cx, rs, pos)
         IN  IF ~a.ok THEN a ELSE Ok(UnOp(e.op, a.v), a.pos)
    [] e.k = "bin" ->
         LET a == Eval(e.l, cx, rs, pos)
         IN  IF ~a.ok THEN a
             ELSE LET b == Eval(e.r, cx, rs, a.pos)
                  IN  IF ~b.ok THEN b
                      ELSE IF e.op \in {"/", "%"} /\ b.v = W0 THEN Err("div0", b.pos)
                      ELSE Ok(BinOp(e.op, a.v, b.v), b.pos)
    [] e.k = "fn" ->
         CASE e.name = "ite" ->
                LET c == Eval(e.args[1], cx, rs, pos)
                IN  IF ~c.ok THEN c
                    ELSE IF c.v = W0 THEN Eval(e.args[3], cx, rs, c.pos)
                    ELSE Eval(e.args[2], cx, rs, c.pos)
           [] e.name = "random" ->
                LET a == Eval(e.args[1], cx, rs, pos)
                IN  IF ~a.ok THEN a
                    ELSE IF WLe(a.v, W1) THEN Err("range", a.pos)
                    ELSE Draw(rs, a.pos, a.v)
           [] e.name = "signExt" -> Err("unimpl", pos)

-----------------------------------------------------------------------------
\* Evaluation of the entries of a data row, left to right.  bits(n,e) yields
\* n one-bit entries, most significant first.
RECURSIVE BitsOf(_, _)
BitsOf(w, n) ==                       \* bits n-1 .. 0 of w
  IF n = 0 THEN <<>>
  ELSE <<[k |-> "num", v |-> WFromNat(WBit(w, n - 1))]>> \o BitsOf(w, n - 1)

RECURSIVE EvalEntries(_, _, _, _, _, _)
EvalEntries(entries, j, cx, rs, pos, acc) ==
  IF j > Len(entries) THEN [ok |-> TRUE, entries |-> acc, pos |-> pos]
  ELSE LET en == entries[j]
       IN  CASE en.k = "expr" ->
                  LET r == Eval(en.e, cx, rs, pos)
                  IN  IF ~r.ok THEN r
                      ELSE EvalEntries(entries, j + 1, cx, rs, r.pos,
                                       Append(acc, [k |-> "num", v |-> r.v]))
             [] en.k = "bits" ->
                  LET r == Eval(en.e, cx, rs, pos)
                  IN  IF ~r.ok THEN r
                      ELSE EvalEntries(entries, j + 1, cx, rs, r.pos, acc \o BitsOf(r.v, en.n))
             [] OTHER -> EvalEntries(entries, j + 1, cx, rs, pos, Append(acc, en))

=============================================================================
