SPECIFICATION Spec
CONSTANTS
  MaxSigs = 2
  MaxCols = 2
  WideNames = FALSE
  EmitReplay = FALSE
INVARIANTS BindIff AcceptedRuns CompleteVector PrintBehaviour
CHECK_DEADLOCK FALSE
