------------------------------- MODULE MC_Exp -------------------------------
(***************************************************************************)
(* Design-level check of C / X expansion (C05): EVERY row shape over three *)
(* input columns (a 2-bit input, a bidirectional signal, a 1-bit input) and*)
(* two expected columns, with entries 0 / 1 / X / C / Z / an expression in *)
(* the input columns and 1 / X / Z in the expected columns, at loop depth  *)
(* 0 and 1.  The stack algorithm of the code (Interp: split on the         *)
(* right-most X, push 1 then 0; replace C by the triple; pop) must yield   *)
(* exactly the declarative expansion of the sequential reading (Sem!Expand:*)
(* binary counting with the left-most X as lowest bit; per assignment the  *)
(* row, or (clk 0, unchecked)(clk 1, unchecked)(clk 0, checked)).          *)
(*   ExpansionAgrees   B's rows (inputs, expected, checked) = A's          *)
(*   Pattern           the size and shape of the expansion, stated directly*)
(* Every row shape is printed with its expansion for the replay.           *)
(***************************************************************************)
EXTENDS Interp, Sem, Json, TLC

CONSTANTS InLoop, EmitReplay

N(k) == [k |-> "num", v |-> WFromNat(k)]
Header == <<"A", "D", "K", "Q", "D_out">>
Supplied0 ==
  << [name |-> "Q", bits |-> 2, dir |-> "out", def |-> VX, vexpr |-> N(0)],
     [name |-> "K", bits |-> 1, dir |-> "in", def |-> Num(W0), vexpr |-> N(0)],
     [name |-> "A", bits |-> 2, dir |-> "in", def |-> Num(W1), vexpr |-> N(0)],
     [name |-> "D", bits |-> 4, dir |-> "bidir", def |-> VZ, vexpr |-> N(0)] >>

InEntries == {N(0), N(1), [k |-> "X"], [k |-> "C"], [k |-> "Z"], [k |-> "expr", e |-> [k |-> "id", name |-> "i"]]}
ExpEntries == {N(1), [k |-> "X"], [k |-> "Z"]}

VARIABLE entries
Init == entries = <<>>
Next == /\ Len(entries) < 5
        /\ \E en \in (IF Len(entries) < 3 THEN InEntries ELSE ExpEntries) : entries' = Append(entries, en)
Spec == Init /\ [][Next]_entries

Complete == Len(entries) = 5
RowStmt == [k |-> "row", line |-> 1, entries |-> entries]
Prog == IF InLoop THEN <<[k |-> "loop", var |-> "i", max |-> N(2), body |-> <<RowStmt>>]>>
        ELSE <<[k |-> "let", name |-> "i", e |-> N(3)], RowStmt>>
Ct == Compile(Header, Supplied0, Prog, <<>>, TRUE)
Ans == [k |-> "ok", outs |-> <<[s |-> "Q", v |-> Num(WFromNat(2))], [s |-> "D", v |-> VZ]>>]
RS == [mode |-> "gen", g |-> <<>>]

RECURSIVE RunB(_, _, _)
RunB(it, items, calls) ==
  IF Len(items) >= 60 THEN [items |-> items, calls |-> calls]
  ELSE LET c == NextCall(Ct, it, RS, 0)
       IN  IF c.k = "none" THEN [items |-> Append(items, [k |-> "none", nc |-> 0]), calls |-> calls]
           ELSE IF c.k = "err" THEN [items |-> Append(items, [k |-> "err", class |-> "runtime", id |-> 0, nc |-> 0]), calls |-> calls]
           ELSE LET ret == NextReturn(Ct, c.it, c.row, Ans, RS, c.pos)
                IN  RunB(ret.it,
                         Append(items, [k |-> "row", line |-> ret.item.line, chk |-> c.row.upd,
                                        inputs |-> [j \in DOMAIN ret.item.inputs |-> [s |-> ret.item.inputs[j].s, v |-> ret.item.inputs[j].v]],
                                        outputs |-> ret.item.outputs, nc |-> 1]),
                         Append(calls, [kind |-> c.call.kind,
                                        inputs |-> [j \in DOMAIN c.call.inputs |-> [s |-> c.call.inputs[j].s, v |-> c.call.inputs[j].v]]]))

Ctor == CtorFinish(Ct, Ans)
Ran == RunB(Ctor.it, <<>>, <<[kind |-> "read", inputs |-> [j \in DOMAIN DefaultInputs(Ct) |-> [s |-> DefaultInputs(Ct)[j].s, v |-> DefaultInputs(Ct)[j].v]]]>>)

\* level A on the same script
A == Run(Ct, [j \in 1..70 |-> Ans], RS, Len(Ran.items), 8)
Strip(h) == [k \in DOMAIN h |->
               IF h[k].k = "row" THEN [k |-> "row", line |-> h[k].line, inputs |-> h[k].inputs, outputs |-> h[k].outputs]
               ELSE [f \in (DOMAIN h[k]) \ {"nc"} |-> h[k][f]]]
StripA(h) == [k \in DOMAIN h |->
               IF h[k].k = "row" THEN [k |-> "row", line |-> h[k].line, inputs |-> h[k].inputs, outputs |-> h[k].outputs]
               ELSE h[k]]

ExpansionAgrees == Complete => (StripA(A.items) = Strip(Ran.items) /\ A.calls = Ran.calls)

\* the shape, stated directly: per evaluation of the source row 2^k groups, each one row or a clock triple
Rows == SelectSeq(Ran.items, LAMBDA x : x.k = "row")
NX == Cardinality({c \in 1..3 : entries[c].k = "X"})
HasC == \E c \in 1..3 : entries[c].k = "C"
Pow(k) == IF k = 0 THEN 1 ELSE IF k = 1 THEN 2 ELSE IF k = 2 THEN 4 ELSE 8
Pattern ==
  Complete =>
     LET per == Pow(NX) * (IF HasC THEN 3 ELSE 1)
         evals == IF InLoop THEN 2 ELSE 1
     IN  /\ Len(Rows) = per * evals
         \* only every third row of a clocked expansion is checked and carries outputs
         /\ \A j \in DOMAIN Rows :
               (HasC /\ j % 3 # 0) <=> (~Rows[j].chk /\ Rows[j].outputs = <<>>)
         \* X or Z in expected columns is never expanded: the checked rows carry them as they are
         /\ \A j \in DOMAIN Rows : Rows[j].chk =>
               /\ Rows[j].outputs[1].exp = (IF entries[4].k = "num" THEN Num(W1) ELSE IF entries[4].k = "X" THEN VX ELSE VZ)
         \* no X or C reaches the driver
         /\ \A j \in DOMAIN Rows : \A n \in DOMAIN Rows[j].inputs : Rows[j].inputs[n].v.t \in {"n", "Z"}

PrintBehaviour ==
  (EmitReplay /\ Complete) =>
     PrintT(<<"REPLAY", ToJson([header |-> Header, signals |-> Supplied0, prog |-> Prog, own_write |-> TRUE, ctor |-> "ok",
                                 script |-> [j \in 1..Len(Ran.calls) |-> Ans], calls |-> Ran.calls,
                                 items |-> [k \in DOMAIN Ran.items |->
                                    IF Ran.items[k].k = "row"
                                    THEN [k |-> "row", line |-> Ran.items[k].line, inputs |-> Ran.items[k].inputs,
                                          outputs |-> Ran.items[k].outputs, nc |-> 1]
                                    ELSE Ran.items[k]]])>>)
=============================================================================
