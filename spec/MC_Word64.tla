----------------------------- MODULE MC_Word64 -----------------------------
(* Cross-checks Word64 against vectors computed with arbitrary-precision   *)
(* integers (bin/gen_word64_vectors.py) and against its own bit-level      *)
(* definitions.  The vector file is named by the environment variable VEC. *)
EXTENDS Word64, Json, IOUtils, TLC

V == ndJsonDeserialize(IOEnv.VEC)

VARIABLE i
vars == <<i>>

Expect(v) ==
  CASE v.op = "add"  -> WAdd(v.a, v.b)
    [] v.op = "sub"  -> WSub(v.a, v.b)
    [] v.op = "mul"  -> WMul(v.a, v.b)
    [] v.op = "neg"  -> WNeg(v.a)
    [] v.op = "not"  -> WNot(v.a)
    [] v.op = "and"  -> WAnd(v.a, v.b)
    [] v.op = "or"   -> WOr(v.a, v.b)
    [] v.op = "xor"  -> WXor(v.a, v.b)
    [] v.op = "shl"  -> WShl(v.a, v.b)
    [] v.op = "shr"  -> WShr(v.a, v.b)
    [] v.op = "div"  -> WDiv(v.a, v.b)
    [] v.op = "rem"  -> WRem(v.a, v.b)
    [] v.op = "lt"   -> WBool(WLt(v.a, v.b))
    [] v.op = "le"   -> WBool(WLe(v.a, v.b))
    [] v.op = "trunc"-> WTrunc(v.a, v.n)

\* bit-level definition of truncation (C07): bit i of the result is bit i of
\* the argument for i < bits and 0 above
TruncBitwise(v) ==
  v.op = "trunc" => \A k \in 0..63 :
      WBit(WTrunc(v.a, v.n), k) = (IF k < v.n THEN WBit(v.a, k) ELSE 0)

Check(v) == /\ IsWord(Expect(v))
            /\ Expect(v) = v.r
            /\ TruncBitwise(v)

Init == i = 1
Next == /\ i <= Len(V)
        /\ i' = i + 1
Spec == Init /\ [][Next]_vars

Ok == i <= Len(V) => (Check(V[i]) \/ ~PrintT(<<"BAD", i, V[i], Expect(V[i])>>))

AllSeen == TLCGet("stats").diameter = Len(V) + 1
=============================================================================
