------------------------------- MODULE Interp -------------------------------
(***************************************************************************)
(* Level B: the resumable row iterator, shaped like the implementation.    *)
(*                                                                         *)
(* The public calls are the actions (TryIter, NextCall / NextReturn);      *)
(* everything between two interactions with the driver is the deterministic*)
(* operator Advance, a CASE with one arm per arm of the code's statement   *)
(* iterator (Iterate / StartLoop / StartIterateInner / IterateInner /      *)
(* EndIterateInner / StartWhile / WhileIterateInner).                      *)
(*                                                                         *)
(* State of one iterator, record `it`:                                     *)
(*   ctl    control stack; frame k+1 is the inner iterator of frame k      *)
(*   env    the variables (FramedMap)                                      *)
(*   outs   answer of the latest output-reading call, Seq([s, v])          *)
(*   cache  LIFO stack of pending expanded rows, top = last element        *)
(*   prev   [has, entries] entries of the previously yielded row           *)
(*   layout learnt from the constructor's answer: per expected index       *)
(*          [k |-> "out", n] | [k |-> "virt"] | [k |-> "none"]             *)
(*   rpos   draws since the last (re)seed ("gen" random source only)       *)
(*                                                                         *)
(* A compiled test `ct` is [signals, header, prog, inIdx, expIdx, reads,   *)
(* ownWrite]: signals in the order TestCase.signals has them (supplied     *)
(* ones, then one 64-bit virtual signal per declaration); ownWrite tells   *)
(* whether the driver overrides the write-only call.                       *)
(***************************************************************************)
EXTENDS Expr, Bind, TLC

NoExpr == [k |-> "num", v |-> W0]

Frame(stmts) == [stmts |-> stmts, pc |-> 1, st |-> "Iterate",
                 var |-> "", max |-> W0, cond |-> NoExpr, body |-> <<>>]

NewIt(ct) == [ctl |-> <<Frame(ct.prog)>>, env |-> FM_New, outs |-> <<>>,
              cache |-> <<>>, prev |-> [has |-> FALSE, entries |-> <<>>],
              layout |-> <<>>, rpos |-> 0]

Compile(header, signals, prog, decls, ownWrite) ==
  [signals |-> signals, header |-> header, prog |-> prog,
   inIdx |-> InIdx(header, signals), expIdx |-> ExpIdx(header, signals),
   reads |-> Reads(prog, decls), ownWrite |-> ownWrite]

Cx(it) == [env |-> it.env, outs |-> it.outs, vars |-> TRUE]

-----------------------------------------------------------------------------
-----------------------------------------------------------------------------
\* The statement iterator.  Result:
\*   [y |-> "row", it, entries, line, pos] | [y |-> "end", it, pos]
\*   | [y |-> "err", it, err, pos]
Top(it) == it.ctl[Len(it.ctl)]
SetTop(it, f) == [it EXCEPT !.ctl[Len(it.ctl)] = f]

\* consume a reset marker of the implementation's log
ResetPos(rs, pos) ==
  IF rs.mode = "gen" THEN [ok |-> TRUE, pos |-> 0]
  ELSE IF pos < Len(rs.tape) /\ rs.tape[pos + 1].r THEN [ok |-> TRUE, pos |-> pos + 1]
  ELSE [ok |-> FALSE, pos |-> pos]

RECURSIVE Advance(_, _, _)
Advance(it, rs, pos) ==
  LET d == Len(it.ctl)
      top == it.ctl[d]
  IN
  CASE top.st = "Iterate" ->
         IF top.pc > Len(top.stmts)
         THEN \* this block is exhausted
              IF d = 1 THEN [y |-> "end", it |-> it, pos |-> pos]
              ELSE LET par == it.ctl[d - 1]
                       st1 == IF par.st = "IterateInner" THEN "EndIterateInner" ELSE "StartWhile"
                   IN  Advance([it EXCEPT !.ctl = Append(SubSeq(it.ctl, 1, d - 2),
                                                         [par EXCEPT !.st = st1])], rs, pos)
         ELSE LET s == top.stmts[top.pc]
                  it1 == SetTop(it, [top EXCEPT !.pc = @ + 1])
              IN
              (CASE s.k = "let" ->
                     LET r == Eval(s.e, Cx(it), rs, pos)
                     IN  IF ~r.ok THEN [y |-> "err", it |-> it1, err |-> r.err, pos |-> r.pos]
                         ELSE Advance([it1 EXCEPT !.env = FM_Set(it.env, s.name, r.v)], rs, r.pos)
                [] s.k = "row" ->
                     LET r == EvalEntries(s.entries, 1, Cx(it), rs, pos, <<>>)
                     IN  IF ~r.ok THEN [y |-> "err", it |-> it1, err |-> r.err, pos |-> r.pos]
                         ELSE [y |-> "row", it |-> it1, entries |-> r.entries,
                               line |-> s.line, pos |-> r.pos]
                [] s.k = "loop" ->
                     LET r == Eval(s.max, Cx(it), rs, pos)
                     IN  IF ~r.ok THEN [y |-> "err", it |-> it1, err |-> r.err, pos |-> r.pos]
                         ELSE Advance(SetTop(it1, [Top(it1) EXCEPT !.st = "StartLoop",
                                  !.var = s.var, !.max = r.v, !.body = s.body]), rs, r.pos)
                [] s.k = "reset" ->
                     LET r == ResetPos(rs, pos)
                     IN  IF ~r.ok THEN [y |-> "err", it |-> it1, err |-> "tape", pos |-> pos]
                         ELSE Advance(it1, rs, r.pos)
                [] s.k = "while" ->
                     Advance(SetTop(it1, [Top(it1) EXCEPT !.st = "StartWhile",
                                  !.cond = s.cond, !.body = s.body]), rs, pos))
    [] top.st = "StartLoop" ->
         IF WLe(top.max, W0)
         THEN Advance(SetTop(it, [top EXCEPT !.st = "Iterate"]), rs, pos)
         ELSE Advance([SetTop(it, [top EXCEPT !.st = "StartIterateInner"])
                         EXCEPT !.env = FM_Set(FM_Push(it.env), top.var, W0)], rs, pos)
    [] top.st = "StartIterateInner" ->
         Advance([it EXCEPT !.ctl = Append(SubSeq(it.ctl, 1, d - 1), [top EXCEPT !.st = "IterateInner"])
                                      \o <<Frame(top.body)>>], rs, pos)
    [] top.st = "EndIterateInner" ->
         LET value == WAdd(FM_Get(it.env, top.var).v, W1)
         IN  IF WLt(value, top.max)
             THEN Advance([SetTop(it, [top EXCEPT !.st = "StartIterateInner"])
                             EXCEPT !.env = FM_Set(it.env, top.var, value)], rs, pos)
             ELSE Advance([SetTop(it, [top EXCEPT !.st = "Iterate"])
                             EXCEPT !.env = FM_Pop(it.env)], rs, pos)
    [] top.st = "StartWhile" ->
         LET r == Eval(top.cond, Cx(it), rs, pos)
         IN  IF ~r.ok THEN [y |-> "err", it |-> it, err |-> r.err, pos |-> r.pos]
             ELSE IF r.v = W0
             THEN Advance(SetTop(it, [top EXCEPT !.st = "Iterate"]), rs, r.pos)
             ELSE Advance([it EXCEPT !.ctl = Append(SubSeq(it.ctl, 1, d - 1),
                                                [top EXCEPT !.st = "WhileIterateInner"])
                                              \o <<Frame(top.body)>>], rs, r.pos)
    [] OTHER -> Assert(FALSE, <<"Advance: unexpected control state", top.st, d>>)

-----------------------------------------------------------------------------
\* Expansion of the pending row stack (property C05), as the code does it.
Num0 == [k |-> "num", v |-> W0]
Num1 == [k |-> "num", v |-> W1]

RECURSIVE RightmostX(_, _, _)
RightmostX(entries, inIdx, i) ==            \* right-most X in an input column, or 0
  IF i = 0 THEN 0
  ELSE IF entries[i].k = "X" /\ IsInputCol(inIdx, i) THEN i
  ELSE RightmostX(entries, inIdx, i - 1)

RECURSIVE ExpandX(_, _)
ExpandX(cache, inIdx) ==
  LET n == Len(cache)
      row == cache[n]
      xi == RightmostX(row.entries, inIdx, Len(row.entries))
  IN  IF xi = 0 THEN cache
      ELSE ExpandX(SubSeq(cache, 1, n - 1)
                     \o <<[row EXCEPT !.entries[xi] = Num1], [row EXCEPT !.entries[xi] = Num0]>>,
                   inIdx)

ExpandC(cache, inIdx, expIdx) ==
  LET n == Len(cache)
      row == cache[n]
      cs == {i \in DOMAIN row.entries : row.entries[i].k = "C" /\ IsInputCol(inIdx, i)}
      SetC(r, e) == [r EXCEPT !.entries = [i \in DOMAIN r.entries |-> IF i \in cs THEN e ELSE r.entries[i]]]
      rowA == SetC(row, Num0)
      blank == [rowA EXCEPT !.upd = FALSE,
                  \* (a column can be the `<name>_out` column of a bidirectional signal and at the same time the
                  \* column of an input that is itself called `<name>_out`: such an entry is still driven)
                  !.entries = [i \in DOMAIN rowA.entries |->
                      IF IsExpectedCol(expIdx, i) /\ ~IsInputCol(inIdx, i) THEN [k |-> "X"] ELSE rowA.entries[i]]]
      rowB == SetC(blank, Num1)
      rowC == SetC(blank, Num0)
  IN  IF cs = {} THEN cache
      ELSE SubSeq(cache, 1, n - 1) \o <<rowA, rowB, rowC>>

\* values of the vectors handed out for one (expanded) row
InputValue(en, bits) ==
  CASE en.k = "num" -> Num(WTrunc(en.v, bits))
    [] en.k = "Z" -> VZ

ExpectedValue(en, bits) ==
  CASE en.k = "num" -> Num(WTrunc(en.v, bits))
    [] en.k = "Z" -> VZ
    [] en.k = "X" -> VX

Changed(it, entries, c) ==
  IF it.prev.has THEN entries[c] # it.prev.entries[c] ELSE TRUE

Inputs(ct, it, entries) ==
  [k \in DOMAIN ct.inIdx |->
     LET ix == ct.inIdx[k]
         sg == ct.signals[ix.sig]
     IN  IF ix.ent = 0 THEN [s |-> sg.name, v |-> sg.def, ch |-> FALSE]
         ELSE [s |-> sg.name, v |-> InputValue(entries[ix.ent], sg.bits),
               ch |-> Changed(it, entries, ix.ent)]]

Expected(ct, entries) ==
  [k \in DOMAIN ct.expIdx |->
     LET ix == ct.expIdx[k]
         sg == ct.signals[ix.sig]
     IN  IF ix.ent = 0 THEN [s |-> sg.name, v |-> VX]
         ELSE [s |-> sg.name, v |-> ExpectedValue(entries[ix.ent], sg.bits)]]

DefaultInputs(ct) ==
  [k \in DOMAIN ct.inIdx |->
     LET sg == ct.signals[ct.inIdx[k].sig] IN [s |-> sg.name, v |-> sg.def, ch |-> FALSE]]

-----------------------------------------------------------------------------
\* TryIter: the constructor's call and what it learns from the answer.
CtorCall(ct) == [kind |-> "read", inputs |-> DefaultInputs(ct)]

RECURSIVE FirstPos(_, _, _)
FirstPos(outs, name, i) ==
  IF i > Len(outs) THEN 0 ELSE IF outs[i].s = name THEN i ELSE FirstPos(outs, name, i + 1)

Layout(ct, outs) ==
  [k \in DOMAIN ct.expIdx |->
     LET sg == ct.signals[ct.expIdx[k].sig]
         n == FirstPos(outs, sg.name, 1)
     IN  IF sg.dir = "virt" THEN [k |-> "virt", n |-> 0]
         ELSE IF n # 0 THEN [k |-> "out", n |-> n]
         ELSE [k |-> "none", n |-> 0]]

\* names of output-capable signals the driver's answer supplies
Supplied(ct, outs) ==
  {ct.signals[ct.expIdx[k].sig].name : k \in
     {k \in DOMAIN ct.expIdx : ct.signals[ct.expIdx[k].sig].dir # "virt"
                               /\ FirstPos(outs, ct.signals[ct.expIdx[k].sig].name, 1) # 0}}

\* answer: [k |-> "ok", outs |-> Seq([s, v])] | [k |-> "err", id |-> Nat]
\* result: [res |-> "ok", it] | [res |-> "driver", id] | [res |-> "runtime"]
CtorFinish(ct, answer) ==
  IF answer.k = "err" THEN [res |-> "driver", id |-> answer.id]
  ELSE IF ~(ct.reads \subseteq Supplied(ct, answer.outs)) THEN [res |-> "runtime"]
  ELSE [res |-> "ok",
        it |-> [NewIt(ct) EXCEPT !.outs = answer.outs, !.layout = Layout(ct, answer.outs)]]

-----------------------------------------------------------------------------
\* next(), first half: up to the driver call.
\*   [k |-> "none", it, pos] | [k |-> "err", it, err, pos]
\*   | [k |-> "call", it, call, row, pos]
NextCall(ct, it, rs, pos0) ==
  LET a == IF it.cache = <<>> THEN Advance(it, rs, pos0)
           ELSE [y |-> "cached", it |-> it, pos |-> pos0]
  IN  IF a.y = "end" THEN [k |-> "none", it |-> a.it, pos |-> a.pos]
      ELSE IF a.y = "err" THEN [k |-> "err", it |-> a.it, err |-> a.err, pos |-> a.pos]
      ELSE
        LET cache0 == IF a.y = "row"
                      THEN <<[entries |-> a.entries, line |-> a.line, upd |-> TRUE]>>
                      ELSE it.cache
            cache1 == ExpandC(ExpandX(cache0, ct.inIdx), ct.inIdx, ct.expIdx)
            row == cache1[Len(cache1)]
            inputs == Inputs(ct, a.it, row.entries)
            it2 == [a.it EXCEPT !.cache = SubSeq(cache1, 1, Len(cache1) - 1),
                                !.prev = [has |-> TRUE, entries |-> row.entries]]
        IN  [k |-> "call", it |-> it2, pos |-> a.pos,
             call |-> [kind |-> IF row.upd \/ ~ct.ownWrite THEN "read" ELSE "write",
                       inputs |-> inputs],
             row |-> [line |-> row.line, inputs |-> inputs,
                      expected |-> Expected(ct, row.entries), upd |-> row.upd]]

\* next(), second half: the driver's answer becomes the item.
NumOutputs(it) == Cardinality({k \in DOMAIN it.layout : it.layout[k].k = "out"})

RECURSIVE Extract(_, _, _, _, _, _, _)
Extract(ct, it, outs, k, rs, pos, acc) ==
  IF k > Len(ct.expIdx) THEN [ok |-> TRUE, vals |-> acc, pos |-> pos]
  ELSE LET sg == ct.signals[ct.expIdx[k].sig]
           ly == it.layout[k]
       IN  CASE ly.k = "out" ->
                  IF outs[ly.n].s = sg.name
                  THEN Extract(ct, it, outs, k + 1, rs, pos, Append(acc, outs[ly.n].v))
                  ELSE [ok |-> FALSE, err |-> "order", pos |-> pos]
             [] ly.k = "virt" ->
                  LET r == Eval(sg.vexpr, [env |-> it.env, outs |-> outs, vars |-> FALSE], rs, pos)
                  IN  IF ~r.ok THEN [ok |-> FALSE, err |-> r.err, pos |-> r.pos]
                      ELSE Extract(ct, it, outs, k + 1, rs, r.pos, Append(acc, Num(r.v)))
             [] ly.k = "none" -> Extract(ct, it, outs, k + 1, rs, pos, Append(acc, VX))

\* result [it, item, pos]; item is
\*   [k |-> "row", line, inputs, outputs] | [k |-> "err", class, id, why]
NextReturn(ct, it, row, answer, rs, pos) ==
  IF answer.k = "err"
  THEN [it |-> it, pos |-> pos, item |-> [k |-> "err", class |-> "driver", id |-> answer.id, why |-> "driver"]]
  ELSE IF ~row.upd
  THEN [it |-> it, pos |-> pos,
        item |-> [k |-> "row", line |-> row.line, inputs |-> row.inputs, outputs |-> <<>>]]
  ELSE
    LET it1 == [it EXCEPT !.outs = answer.outs]
    IN  IF Len(answer.outs) # NumOutputs(it)
        THEN [it |-> it1, pos |-> pos, item |-> [k |-> "err", class |-> "runtime", id |-> 0, why |-> "count"]]
        ELSE LET x == Extract(ct, it1, answer.outs, 1, rs, pos, <<>>)
             IN  IF ~x.ok
                 THEN [it |-> it1, pos |-> x.pos,
                       item |-> [k |-> "err", class |-> "runtime", id |-> 0, why |-> x.err]]
                 ELSE [it |-> it1, pos |-> x.pos,
                       item |-> [k |-> "row", line |-> row.line, inputs |-> row.inputs,
                                 outputs |-> [k \in DOMAIN row.expected |->
                                     [s |-> row.expected[k].s, out |-> x.vals[k],
                                      exp |-> row.expected[k].v]]]]

\* vars(): the visible variables as a set of <<name, value>>
Vars(it) == FM_Flatten(it.env)
=============================================================================
