------------------------------ MODULE MC_Sched ------------------------------
(***************************************************************************)
(* Design-level check of C15: several iterators over ONE immutable test,   *)
(* stepped in every interleaving, each talking to its own driver.  The     *)
(* state of the system is a function from iterator ids to iterator states; *)
(* an action steps exactly one of them.                                    *)
(*   Independent   every iterator's history is the history the sequential  *)
(*                 reading (Sem) prescribes for ITS driver's answers, no   *)
(*                 matter how the others were scheduled in between         *)
(*   StaticRule    when the program reads no output, the rows of every     *)
(*                 iterator (inputs, expected values, lines) equal those   *)
(*                 of the run against the driver that supplies nothing     *)
(* Terminal states print the schedule for the replay on real iterators.    *)
(***************************************************************************)
EXTENDS Interp, Sem, Json, TLC

CONSTANTS NIter, MaxSteps, EmitReplay

N(k) == [k |-> "num", v |-> WFromNat(k)]
Id(s) == [k |-> "id", name |-> s]
Bin(op, l, r) == [k |-> "bin", op |-> op, l |-> l, r |-> r]
Ex(e) == [k |-> "expr", e |-> e]
XE == [k |-> "X"]
CE == [k |-> "C"]
Row(id, es) == [k |-> "row", line |-> id, entries |-> es]

Header == <<"CLK", "A", "Q">>
Supplied0 ==
  << [name |-> "CLK", bits |-> 1, dir |-> "in", def |-> Num(W0), vexpr |-> N(0)],
     [name |-> "A", bits |-> 3, dir |-> "in", def |-> Num(W1), vexpr |-> N(0)],
     [name |-> "Q", bits |-> 4, dir |-> "out", def |-> VX, vexpr |-> N(0)] >>
Schema ==
  << \* feedback: what an iterator sends depends on what ITS driver answered
     << Row(1, <<N(0), Ex(Id("Q")), XE>>), Row(2, <<CE, Ex(Bin("+", Id("Q"), N(1))), Ex(Id("Q"))>>) >>,
     \* device-driven loop with a variable
     << [k |-> "let", name |-> "k", e |-> N(0)],
        [k |-> "loop", var |-> "i", max |-> Id("Q"), body |->
           << [k |-> "let", name |-> "k", e |-> Bin("+", Id("k"), Id("i"))], Row(1, <<N(0), Ex(Id("k")), XE>>) >>] >>,
     \* static: reads nothing
     << [k |-> "loop", var |-> "i", max |-> N(2), body |-> <<Row(1, <<XE, Ex(Id("i")), Ex(Id("i"))>>)>>], Row(2, <<CE, N(1), N(2)>>) >> >>

\* iterator j's driver answers Q = j + (call index mod 2)
Answer(j, idx) == [k |-> "ok", outs |-> <<[s |-> "Q", v |-> Num(WFromNat(j + (idx % 2)))]>>]
Script(j, n) == [k \in 1..n |-> Answer(j, k - 1)]
RS == [mode |-> "gen", g |-> <<>>]

VARIABLES pi, its, hists, ncalls, sched
vars == <<pi, its, hists, ncalls, sched>>
Ct == Compile(Header, Supplied0, Schema[pi], <<>>, TRUE)
Iters == 1..NIter

Init == /\ pi \in DOMAIN Schema
        /\ its = [j \in Iters |-> CtorFinish(Compile(Header, Supplied0, Schema[pi], <<>>, TRUE), Answer(j, 0)).it]
        /\ hists = [j \in Iters |-> <<>>]
        /\ ncalls = [j \in Iters |-> 1]
        /\ sched = <<>>

Live(j) == IF hists[j] = <<>> THEN TRUE ELSE hists[j][Len(hists[j])].k = "row"

Step(j) ==
  /\ Live(j) /\ Len(sched) < MaxSteps
  /\ \E c \in {NextCall(Ct, its[j], RS, 0)} :
       IF c.k = "none" THEN /\ hists' = [hists EXCEPT ![j] = Append(@, [k |-> "none"])]
                            /\ its' = [its EXCEPT ![j] = c.it] /\ UNCHANGED ncalls
       ELSE IF c.k = "err" THEN /\ hists' = [hists EXCEPT ![j] = Append(@, [k |-> "err", class |-> "runtime", id |-> 0])]
                                /\ its' = [its EXCEPT ![j] = c.it] /\ UNCHANGED ncalls
       ELSE \E ret \in {NextReturn(Ct, c.it, c.row, Answer(j, ncalls[j]), RS, c.pos)} :
            /\ its' = [its EXCEPT ![j] = ret.it]
            /\ ncalls' = [ncalls EXCEPT ![j] = @ + 1]
            /\ hists' = [hists EXCEPT ![j] = Append(@,
                  IF ret.item.k = "row"
                  THEN [k |-> "row", line |-> ret.item.line,
                        inputs |-> [n \in DOMAIN ret.item.inputs |-> [s |-> ret.item.inputs[n].s, v |-> ret.item.inputs[n].v]],
                        outputs |-> ret.item.outputs, vars |-> Vars(ret.it)]
                  ELSE [k |-> "err", class |-> ret.item.class, id |-> ret.item.id])]
  /\ sched' = Append(sched, j)
  /\ UNCHANGED pi

Next == \E j \in Iters : Step(j)
Spec == Init /\ [][Next]_vars

Independent ==
  \A j \in Iters : Run(Ct, Script(j, ncalls[j]), RS, Len(hists[j]), 8).items = hists[j]

\* rows without what depends on the device
Shape(h) == [n \in DOMAIN h |-> IF h[n].k = "row"
                                 THEN [line |-> h[n].line, inputs |-> h[n].inputs,
                                       exp |-> [m \in DOMAIN h[n].outputs |-> h[n].outputs[m].exp]]
                                 ELSE [line |-> 0, inputs |-> <<>>, exp |-> <<>>]]
StaticRule ==
  Reads(Schema[pi], <<>>) = {} =>
     \A j \in Iters :
        Shape(hists[j]) = Shape(Run(Ct, [k \in 1..ncalls[j] |-> [k |-> "ok", outs |-> <<>>]], RS, Len(hists[j]), 8).items)

Done == Len(sched) >= MaxSteps \/ \A j \in Iters : ~Live(j)
PrintBehaviour ==
  (EmitReplay /\ Done) =>
     PrintT(<<"REPLAY", ToJson([header |-> Header, signals |-> Supplied0, prog |-> Schema[pi], sched |-> sched,
                                 scripts |-> [j \in Iters |-> Script(j, ncalls[j])],
                                 hists |-> hists])>>)
=============================================================================
