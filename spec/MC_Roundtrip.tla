---------------------------- MODULE MC_Roundtrip ----------------------------
(***************************************************************************)
(* print -> parse round trip at design level: every well-nested program of *)
(* the control-flow alphabet (loops, repeat, whiles, lets, rows with        *)
(* expressions and bits(), resetRandom; up to MaxSize statements) is        *)
(* written out as tokens the way a pretty-printer does (one statement per   *)
(* line, minimal parentheses by the precedence table of C08), and           *)
(*   RoundTrip   the parser (Parser.tla, level B) returns exactly that      *)
(*               program, with each row on the line it was printed on (C19) *)
(*   Valid       the grammar (Grammar.tla, level A) accepts it              *)
(* This reaches nested blocks, which the token-by-token enumeration of      *)
(* MC_Parser cannot, and ties Progs (the programs the iterator models run)  *)
(* to the syntax.                                                           *)
(***************************************************************************)
EXTENDS Grammar, Progs, TLC

CONSTANTS MaxSize, MaxDepth, EmitReplay

T0(k, txt, cps) == [k |-> k, s |-> 0, e |-> 0, txt |-> txt, cs |-> cps]
K(k) == T0(k, "", <<>>)
IdT(n) == T0("Ident", n, <<>>)
\* small non-negative numbers only: digits of n < 100
NumT(n) == T0(IF n = 0 THEN "OctInt" ELSE "DecInt", "",
              IF n < 10 THEN <<48 + n>> ELSE <<48 + (n \div 10), 48 + (n % 10)>>)

OpKind(op) ==
  CASE op = "+" -> "Plus" [] op = "-" -> "Minus" [] op = "*" -> "Times" [] op = "/" -> "Divide" [] op = "%" -> "Reminder"
    [] op = "^" -> "Xor" [] op = "&" -> "And" [] op = "|" -> "Or" [] op = "<<" -> "ShiftLeft" [] op = ">>" -> "ShiftRight"
    [] op = "=" -> "Equal" [] op = "!=" -> "NotEqual" [] op = "<=" -> "LessThanOrEqual" [] op = ">=" -> "GreaterThanOrEqual"
    [] op = "<" -> "LessThan" [] op = ">" -> "GreaterThan" [] op = "!" -> "LogicalNot" [] op = "~" -> "BinaryNot"

RECURSIVE UnExpr(_), UnArgs(_, _)
Paren(t) == <<K("LParen")>> \o t \o <<K("RParen")>>
UnExpr(e) ==
  CASE e.k = "num" -> <<NumT(e.v[4])>>
    [] e.k = "id" -> <<IdT(e.name)>>
    [] e.k = "un" -> <<K(OpKind(e.op))>> \o (IF e.e.k = "bin" THEN Paren(UnExpr(e.e)) ELSE UnExpr(e.e))
    [] e.k = "bin" ->
         LET l == IF e.l.k = "bin" /\ Prec(e.l.op) > Prec(e.op) THEN Paren(UnExpr(e.l)) ELSE UnExpr(e.l)
             r == IF e.r.k = "bin" /\ Prec(e.r.op) >= Prec(e.op) THEN Paren(UnExpr(e.r)) ELSE UnExpr(e.r)
         IN  l \o <<K(OpKind(e.op))>> \o r
    [] e.k = "fn" -> <<IdT(e.name), K("LParen")>> \o UnArgs(e.args, 1) \o <<K("RParen")>>
UnArgs(args, i) == IF i > Len(args) THEN <<>>
                   ELSE (IF i > 1 THEN <<K("Comma")>> ELSE <<>>) \o UnExpr(args[i]) \o UnArgs(args, i + 1)

UnEntry(en) ==
  CASE en.k = "num" -> <<NumT(en.v[4])>>
    [] en.k = "expr" -> Paren(UnExpr(en.e))
    [] en.k = "bits" -> <<K("Bits"), K("LParen"), NumT(en.n), K("Comma")>> \o UnExpr(en.e) \o <<K("RParen")>>
    [] en.k = "X" -> <<IdT("X")>> [] en.k = "Z" -> <<IdT("Z")>> [] en.k = "C" -> <<IdT("C")>>
RECURSIVE UnEntries(_, _)
UnEntries(es, i) == IF i > Len(es) THEN <<>> ELSE UnEntry(es[i]) \o UnEntries(es, i + 1)

\* statements, one per line; returns [toks, stmts (with the lines they were printed on), line]
RECURSIVE UnBlock(_, _, _)
UnBlock(stmts, i, line) ==
  IF i > Len(stmts) THEN [toks |-> <<>>, stmts |-> <<>>, line |-> line]
  ELSE LET s == stmts[i]
           one ==
             CASE s.k = "let" -> [toks |-> <<K("Let"), IdT(s.name), K("Equal")>> \o UnExpr(s.e) \o <<K("Semi"), K("Eol")>>,
                                  s |-> s, line |-> line + 1]
               [] s.k = "reset" -> [toks |-> <<K("ResetRandom"), K("Semi"), K("Eol")>>, s |-> s, line |-> line + 1]
               [] s.k = "row" -> [toks |-> UnEntries(s.entries, 1) \o <<K("Eol")>>, s |-> [s EXCEPT !.line = line], line |-> line + 1]
               [] s.k = "loop" ->
                    IF s.var = "n" /\ Len(s.body) = 1 /\ s.body[1].k = "row"
                    THEN [toks |-> <<K("Repeat"), K("LParen")>> \o UnExpr(s.max) \o <<K("RParen")>>
                                     \o UnEntries(s.body[1].entries, 1) \o <<K("Eol")>>,
                          s |-> [s EXCEPT !.body = <<[s.body[1] EXCEPT !.line = line]>>], line |-> line + 1]
                    ELSE LET b == UnBlock(s.body, 1, line + 1)
                         IN  [toks |-> <<K("Loop"), K("LParen"), IdT(s.var), K("Comma")>> \o UnExpr(s.max) \o <<K("RParen"), K("Eol")>>
                                         \o b.toks \o <<K("End"), K("Loop"), K("Eol")>>,
                              s |-> [s EXCEPT !.body = b.stmts], line |-> b.line + 1]
               [] s.k = "while" ->
                    LET b == UnBlock(s.body, 1, line + 1)
                    IN  [toks |-> <<K("While"), K("LParen")>> \o UnExpr(s.cond) \o <<K("RParen"), K("Eol")>>
                                    \o b.toks \o <<K("End"), K("While"), K("Eol")>>,
                         s |-> [s EXCEPT !.body = b.stmts], line |-> b.line + 1]
           rest == UnBlock(stmts, i + 1, one.line)
       IN  [toks |-> one.toks \o rest.toks, stmts |-> <<one.s>> \o rest.stmts, line |-> rest.line]

\* the alphabet of MC_Ctl plus rows with clock / don't-care / high-Z entries and function calls
N(k) == [k |-> "num", v |-> <<0, 0, 0, k>>]
Id(s) == [k |-> "id", name |-> s]
Bin(op, l, r) == [k |-> "bin", op |-> op, l |-> l, r |-> r]
Ex(e) == [k |-> "expr", e |-> e]
Row(es) == [k |-> "row", line |-> 0, entries |-> es]
Rows == { Row(<<Ex(Id("a")), Ex(Bin("*", Bin("+", Id("a"), N(1)), Id("i"))), [k |-> "X"]>>),
          Row(<<[k |-> "bits", n |-> 2, e |-> Bin("-", Id("i"), Bin("-", Id("a"), N(1)))], [k |-> "C"]>>),
          Row(<<N(12), [k |-> "Z"], Ex([k |-> "fn", name |-> "ite", args |-> <<Bin("<", Id("a"), N(2)), [k |-> "un", op |-> "-", e |-> Id("b")], N(0)>>])>>) }
Lets == { [k |-> "let", name |-> "a", e |-> Bin("<<", Bin("&", Id("a"), N(3)), [k |-> "un", op |-> "!", e |-> Bin("=", Id("b"), N(0))])],
          [k |-> "let", name |-> "b", e |-> [k |-> "fn", name |-> "random", args |-> <<N(4)>>]] }
Repeats == { [k |-> "loop", var |-> "n", max |-> Bin("%", Id("a"), N(3)), body |-> <<Row(<<Ex(Id("n")), N(0), [k |-> "X"]>>)>>] }
Atoms == Rows \cup Lets \cup Repeats \cup {[k |-> "reset"]}
Loops == {[var |-> "i", max |-> N(2)], [var |-> "n", max |-> Id("a")]}
Whiles == {Bin("<", Id("a"), N(2))}

Header == << [k |-> "SignalName", s |-> 0, e |-> 1, txt |-> "A", cs |-> <<>>],
             [k |-> "SignalName", s |-> 2, e |-> 3, txt |-> "B", cs |-> <<>>],
             [k |-> "SignalName", s |-> 4, e |-> 5, txt |-> "Q", cs |-> <<>>],
             [k |-> "HeaderEol", s |-> 5, e |-> 6, txt |-> "", cs |-> <<>>] >>

VARIABLE prog
Init == prog \in ProgsUpTo(MaxSize, MaxDepth, Atoms, Loops, Whiles)
Next == UNCHANGED prog
Spec == Init /\ [][Next]_prog

Place(T) == [j \in DOMAIN T |-> [T[j] EXCEPT !.s = 2 * j, !.e = 2 * j + 1]]
WithEof(T) == Place(T) \o <<[k |-> "Eof", s |-> 2 * (Len(T) + 1), e |-> 2 * (Len(T) + 1), txt |-> "", cs |-> <<>>]>>

U == UnBlock(prog, 1, 2)          \* the header is line 1
B == ParseTest(Header, WithEof(U.toks), 2 * (Len(U.toks) + 1))

RoundTrip == B.ok /\ B.stmts = U.stmts
Valid == IsTest(Header, WithEof(U.toks))
\* without the final line break, too
NoFinalEol == LET t == SubSeq(U.toks, 1, Len(U.toks) - 1)
                  b == ParseTest(Header, WithEof(t), 2 * (Len(t) + 1))
              IN  b.ok /\ b.stmts = U.stmts /\ IsTest(Header, WithEof(t))
=============================================================================
