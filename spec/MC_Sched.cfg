SPECIFICATION Spec
CONSTANTS
  NIter = 2
  MaxSteps = 7
  EmitReplay = FALSE
INVARIANTS Independent StaticRule PrintBehaviour
CHECK_DEADLOCK FALSE
