------------------------------ MODULE MC_Values ------------------------------
(***************************************************************************)
(* The verdict rules of C03 over the full product of value classes and     *)
(* 64-bit boundary words: an entry passes iff its expected value is X, or  *)
(* is Z and the output is Z, or both are numbers and equal; is_checked is  *)
(* false exactly for expected X.  Every pair is printed for the replay     *)
(* through the real check() / is_checked() / failing_outputs().            *)
(***************************************************************************)
EXTENDS Values, Json, TLC

CONSTANT EmitReplay

Words == { W0, W1, WM1, WMIN, WMAX, <<0, 0, 0, 2>>, <<0, 0, 1, 0>>, <<0, 1, 0, 0>>, <<1, 0, 0, 0>>,
           <<65535, 65535, 65535, 65534>>, <<0, 0, 65535, 65535>>, <<32768, 0, 0, 1>>, <<0, 0, 0, 255>>,
           <<16384, 0, 0, 0>>, <<291, 17767, 35243, 52719>> }
Vals == {Num(w) : w \in Words} \cup {VZ, VX}

VARIABLES e, o
Init == e \in Vals /\ o \in Vals
Next == UNCHANGED <<e, o>>
Spec == Init /\ [][Next]_<<e, o>>

\* the three clauses, spelled out independently of Values!Check
Passes == \/ e = VX
          \/ e = VZ /\ o = VZ
          \/ e.t = "n" /\ o.t = "n" /\ e.w = o.w

CheckDef == Check(e, o) = Passes
CheckedDef == IsChecked(e) = (e # VX)
\* consequences worth stating: an unknown output never passes a real expectation; Z only matches Z
Consequences == /\ (o = VX /\ e # VX) => ~Check(e, o)
                /\ (e = VZ) => (Check(e, o) <=> o = VZ)
                /\ (e.t = "n" /\ o.t # "n") => ~Check(e, o)

PrintBehaviour ==
  EmitReplay => PrintT(<<"REPLAY", ToJson([exp |-> e, out |-> o, check |-> Check(e, o), is_checked |-> IsChecked(e)])>>)
=============================================================================
