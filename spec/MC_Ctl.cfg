SPECIFICATION Spec
CONSTANTS
  MaxSize = 3
  MaxDepth = 2
  MaxRows = 8
  EmitReplay = TRUE
INVARIANTS Refines CallsAgree FrameDiscipline VarsAreVars PrintBehaviour
CHECK_DEADLOCK FALSE
