------------------------------- MODULE Word64 -------------------------------
(***************************************************************************)
(* 64-bit two's-complement words for TLC, whose own integers are 32 bit.   *)
(*                                                                         *)
(* A word is a 4-tuple <<l3, l2, l1, l0>> of 16-bit limbs, l3 the most     *)
(* significant.  All operations are total and wrap modulo 2^64, which is   *)
(* the arithmetic property C08 prescribes for test expressions:            *)
(*   + - * unary-      wrap                                                *)
(*   / %               truncate toward zero; MIN / -1 wraps to MIN         *)
(*   << >>             use the low six bits of the count; >> is arithmetic *)
(*   & | ^ ~           bit-wise                                            *)
(*   comparisons       signed                                              *)
(* WTrunc(w, bits) is the reduction modulo 2^bits that C07 prescribes for  *)
(* values bound to a signal of that width.                                 *)
(*                                                                         *)
(* No intermediate value exceeds 2^31 - 1: limb products are formed on     *)
(* 8-bit digits.                                                           *)
(***************************************************************************)
EXTENDS Word64Core, Bitwise

\* limbs, + - unary-, ~, comparisons, shifts, WBit and WTrunc live in Word64Core (proved correct for all words with
\* Apalache, AP_Word64.tla); the bit-wise operators need Bitwise, multiplication and division need recursion
WAnd(a, b) == <<a[1] & b[1], a[2] & b[2], a[3] & b[3], a[4] & b[4]>>
WOr(a, b)  == <<a[1] | b[1], a[2] | b[2], a[3] | b[3], a[4] | b[4]>>
WXor(a, b) == <<a[1] ^^ b[1], a[2] ^^ b[2], a[3] ^^ b[3], a[4] ^^ b[4]>>

-----------------------------------------------------------------------------
\* Multiplication modulo 2^64 on eight 8-bit digits.
Digit(w, i) == LET l == Limb(w, i \div 2)
               IN  IF i % 2 = 0 THEN l % 256 ELSE l \div 256

RECURSIVE ColSum(_, _, _, _)
ColSum(a, b, k, i) ==                      \* sum over j \in i..k of a_j * b_(k-j)
  IF i > k THEN 0 ELSE Digit(a, i) * Digit(b, k - i) + ColSum(a, b, k, i + 1)

RECURSIVE MulDigits(_, _, _, _)
MulDigits(a, b, k, carry) ==               \* digits k..7 of the product
  IF k = 8 THEN <<>>
  ELSE LET t == ColSum(a, b, k, 0) + carry
       IN  <<t % 256>> \o MulDigits(a, b, k + 1, t \div 256)

WMul(a, b) ==
  LET d == MulDigits(a, b, 0, 0)           \* d[1] is the least significant digit
  IN  <<d[7] + 256 * d[8], d[5] + 256 * d[6], d[3] + 256 * d[4], d[1] + 256 * d[2]>>

-----------------------------------------------------------------------------
\* Division.  Unsigned bit-serial restoring division; the remainder stays
\* below the divisor, and |divisor| <= 2^63 for signed operands, so the
\* shifted remainder always fits in 64 bits.
RECURSIVE UDivStep(_, _, _, _, _)
UDivStep(n, d, i, quo, rem) ==
  IF i < 0 THEN <<quo, rem>>
  ELSE LET r1 == WAdd(WShlN(rem, 1), WFromNat(WBit(n, i)))
           ge == ~ WULt(r1, d)
       IN  UDivStep(n, d, i - 1,
                    IF ge THEN WAdd(WShlN(quo, 1), W1) ELSE WShlN(quo, 1),
                    IF ge THEN WSub(r1, d) ELSE r1)

\* skip leading zero limbs of the dividend (purely an optimisation)
TopBit(n) == IF n[1] # 0 THEN 63 ELSE IF n[2] # 0 THEN 47 ELSE IF n[3] # 0 THEN 31 ELSE 15

WUDivMod(n, d) == UDivStep(n, d, TopBit(n), W0, W0)            \* d # 0

WAbs(a) == IF WIsNeg(a) THEN WNeg(a) ELSE a                   \* |MIN| = 2^63 as unsigned

\* truncating signed division, b # W0
WDiv(a, b) ==
  LET q == WUDivMod(WAbs(a), WAbs(b))[1]
  IN  IF WIsNeg(a) # WIsNeg(b) THEN WNeg(q) ELSE q

WRem(a, b) ==
  LET r == WUDivMod(WAbs(a), WAbs(b))[2]
  IN  IF WIsNeg(a) THEN WNeg(r) ELSE r

=============================================================================
