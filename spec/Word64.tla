------------------------------- MODULE Word64 -------------------------------
(***************************************************************************)
(* 64-bit two's-complement words for TLC, whose own integers are 32 bit.   *)
(*                                                                         *)
(* A word is a 4-tuple <<l3, l2, l1, l0>> of 16-bit limbs, l3 the most     *)
(* significant.  All operations are total and wrap modulo 2^64, which is   *)
(* the arithmetic property C08 prescribes for test expressions:            *)
(*   + - * unary-      wrap                                                *)
(*   / %               truncate toward zero; MIN / -1 wraps to MIN         *)
(*   << >>             use the low six bits of the count; >> is arithmetic *)
(*   & | ^ ~           bit-wise                                            *)
(*   comparisons       signed                                              *)
(* WTrunc(w, bits) is the reduction modulo 2^bits that C07 prescribes for  *)
(* values bound to a signal of that width.                                 *)
(*                                                                         *)
(* No intermediate value exceeds 2^31 - 1: limb products are formed on     *)
(* 8-bit digits.                                                           *)
(***************************************************************************)
EXTENDS Integers, Sequences, Bitwise

B16 == 65536

W0   == <<0, 0, 0, 0>>
W1   == <<0, 0, 0, 1>>
WM1  == <<65535, 65535, 65535, 65535>>
WMIN == <<32768, 0, 0, 0>>
WMAX == <<32767, 65535, 65535, 65535>>

IsWord(w) == /\ DOMAIN w = 1..4
             /\ \A i \in 1..4 : w[i] \in 0..65535

P2 == <<1, 2, 4, 8, 16, 32, 64, 128, 256, 512, 1024, 2048, 4096, 8192,
        16384, 32768, 65536>>
Pow2(r) == P2[r + 1]                       \* r \in 0..16

\* little-endian limb i \in 0..3 of w
Limb(w, i) == w[4 - i]

WIsNeg(w) == w[1] >= 32768
WIsZero(w) == w = W0

\* a small non-negative TLC integer as a word (0 <= n < 2^31)
WFromNat(n) == <<0, 0, n \div B16, n % B16>>

WAdd(a, b) ==
  LET s0 == a[4] + b[4]
      s1 == a[3] + b[3] + (s0 \div B16)
      s2 == a[2] + b[2] + (s1 \div B16)
      s3 == a[1] + b[1] + (s2 \div B16)
  IN  <<s3 % B16, s2 % B16, s1 % B16, s0 % B16>>

WNot(a) == <<65535 - a[1], 65535 - a[2], 65535 - a[3], 65535 - a[4]>>
WNeg(a) == WAdd(WNot(a), W1)
WSub(a, b) == WAdd(WAdd(a, WNot(b)), W1)

\* a small TLC integer (|n| < 2^31) as a word
WFromInt(n) == IF n >= 0 THEN WFromNat(n) ELSE WNeg(WFromNat(-n))

WAnd(a, b) == <<a[1] & b[1], a[2] & b[2], a[3] & b[3], a[4] & b[4]>>
WOr(a, b)  == <<a[1] | b[1], a[2] | b[2], a[3] | b[3], a[4] | b[4]>>
WXor(a, b) == <<a[1] ^^ b[1], a[2] ^^ b[2], a[3] ^^ b[3], a[4] ^^ b[4]>>

LexLt(x, y) ==
  \/ x[1] < y[1]
  \/ /\ x[1] = y[1]
     /\ \/ x[2] < y[2]
        \/ /\ x[2] = y[2]
           /\ \/ x[3] < y[3]
              \/ /\ x[3] = y[3]
                 /\ x[4] < y[4]

WFlip(a) == <<(a[1] + 32768) % B16, a[2], a[3], a[4]>>
WULt(a, b) == LexLt(a, b)                  \* unsigned <
WLt(a, b)  == LexLt(WFlip(a), WFlip(b))    \* signed <
WLe(a, b)  == a = b \/ WLt(a, b)

WBool(p) == IF p THEN W1 ELSE W0

-----------------------------------------------------------------------------
\* Multiplication modulo 2^64 on eight 8-bit digits.
Digit(w, i) == LET l == Limb(w, i \div 2)
               IN  IF i % 2 = 0 THEN l % 256 ELSE l \div 256

RECURSIVE ColSum(_, _, _, _)
ColSum(a, b, k, i) ==                      \* sum over j \in i..k of a_j * b_(k-j)
  IF i > k THEN 0 ELSE Digit(a, i) * Digit(b, k - i) + ColSum(a, b, k, i + 1)

RECURSIVE MulDigits(_, _, _, _)
MulDigits(a, b, k, carry) ==               \* digits k..7 of the product
  IF k = 8 THEN <<>>
  ELSE LET t == ColSum(a, b, k, 0) + carry
       IN  <<t % 256>> \o MulDigits(a, b, k + 1, t \div 256)

WMul(a, b) ==
  LET d == MulDigits(a, b, 0, 0)           \* d[1] is the least significant digit
  IN  <<d[7] + 256 * d[8], d[5] + 256 * d[6], d[3] + 256 * d[4], d[1] + 256 * d[2]>>

-----------------------------------------------------------------------------
\* Shifts.  n \in 0..63.
LimbOr0(w, i) == IF i \in 0..3 THEN Limb(w, i) ELSE 0

WShlN(a, n) ==
  LET q == n \div 16
      r == n % 16
      R(i) == ((LimbOr0(a, i - q) % Pow2(16 - r)) * Pow2(r))
              + (LimbOr0(a, i - q - 1) \div Pow2(16 - r))
  IN  <<R(3), R(2), R(1), R(0)>>

WShrN(a, n) ==                             \* arithmetic
  LET q == n \div 16
      r == n % 16
      fill == IF WIsNeg(a) THEN 65535 ELSE 0
      L(i) == IF i \in 0..3 THEN Limb(a, i) ELSE fill
      R(i) == (L(i + q) \div Pow2(r)) + ((L(i + q + 1) % Pow2(r)) * Pow2(16 - r))
  IN  <<R(3), R(2), R(1), R(0)>>

WLow6(w) == w[4] % 64                      \* the low six bits of a shift count
WShl(a, c) == WShlN(a, WLow6(c))
WShr(a, c) == WShrN(a, WLow6(c))

WBit(a, i) == (Limb(a, i \div 16) \div Pow2(i % 16)) % 2        \* i \in 0..63

\* reduction modulo 2^bits; identity for bits >= 64
WTrunc(a, bits) ==
  LET K(i) == IF bits >= 16 * (i + 1) THEN Limb(a, i)
              ELSE IF bits <= 16 * i THEN 0
              ELSE Limb(a, i) % Pow2(bits - 16 * i)
  IN  <<K(3), K(2), K(1), K(0)>>

-----------------------------------------------------------------------------
\* Division.  Unsigned bit-serial restoring division; the remainder stays
\* below the divisor, and |divisor| <= 2^63 for signed operands, so the
\* shifted remainder always fits in 64 bits.
RECURSIVE UDivStep(_, _, _, _, _)
UDivStep(n, d, i, quo, rem) ==
  IF i < 0 THEN <<quo, rem>>
  ELSE LET r1 == WAdd(WShlN(rem, 1), WFromNat(WBit(n, i)))
           ge == ~ WULt(r1, d)
       IN  UDivStep(n, d, i - 1,
                    IF ge THEN WAdd(WShlN(quo, 1), W1) ELSE WShlN(quo, 1),
                    IF ge THEN WSub(r1, d) ELSE r1)

\* skip leading zero limbs of the dividend (purely an optimisation)
TopBit(n) == IF n[1] # 0 THEN 63 ELSE IF n[2] # 0 THEN 47 ELSE IF n[3] # 0 THEN 31 ELSE 15

WUDivMod(n, d) == UDivStep(n, d, TopBit(n), W0, W0)            \* d # 0

WAbs(a) == IF WIsNeg(a) THEN WNeg(a) ELSE a                   \* |MIN| = 2^63 as unsigned

\* truncating signed division, b # W0
WDiv(a, b) ==
  LET q == WUDivMod(WAbs(a), WAbs(b))[1]
  IN  IF WIsNeg(a) # WIsNeg(b) THEN WNeg(q) ELSE q

WRem(a, b) ==
  LET r == WUDivMod(WAbs(a), WAbs(b))[2]
  IN  IF WIsNeg(a) THEN WNeg(r) ELSE r

=============================================================================
