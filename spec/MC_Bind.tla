------------------------------- MODULE MC_Bind -------------------------------
(***************************************************************************)
(* Design-level check of binding a test to a signal list (C11, C06).       *)
(*                                                                         *)
(* EVERY combination of                                                    *)
(*   a signal list   (up to MaxSigs signals over the names A, Q[, A_out],  *)
(*                    directions in / out / bidir, duplicates included),   *)
(*   a header        (up to MaxCols distinct columns from A Q A_out Q_out V),*)
(*   program facts   (a clock entry in none or one column; a device read of *)
(*                    nothing, A, Q, V or an unknown name; no declaration, *)
(*                    `declare V` or `declare A`)                          *)
(* is bound the way the code does it (Bind!BindResult: duplicate check,    *)
(* index tables, unknown columns, clock columns, reads - in that order)    *)
(* and judged declaratively (Bind!Fits).                                   *)
(*   BindIff        BindResult = "ok"  <=>  Fits                 (C11)     *)
(*   AcceptedRuns   an accepted test runs to the end without reaching a    *)
(*                  state the code cannot handle (an X or C that is not    *)
(*                  expanded, a missing default)                 (C11)     *)
(*   CompleteVector every row of an accepted test has one input per        *)
(*                  input-capable signal and one output per output-capable *)
(*                  or virtual signal, in signal-list order, bound by name *)
(*                  (level A vectors of Sem)                     (C06)     *)
(* Every combination is printed for the replay through the real            *)
(* with_signals / try_iter.                                                *)
(***************************************************************************)
EXTENDS Interp, Sem, Json, TLC

CONSTANTS MaxSigs, MaxCols, WideNames, EmitReplay

N(k) == [k |-> "num", v |-> WFromNat(k)]
Id(s) == [k |-> "id", name |-> s]

SigNames == IF WideNames THEN {"A", "Q", "A_out"} ELSE {"A", "Q"}
SigOptions ==
  {[name |-> n, bits |-> 2, dir |-> d, def |-> IF d = "out" THEN VX ELSE Num(W1), vexpr |-> N(0)] :
      n \in SigNames, d \in {"in", "out", "bidir"}}
ColNames == {"A", "Q", "A_out", "Q_out", "V"}

VARIABLES sigs, header, ccol, read, decl
vars == <<sigs, header, ccol, read, decl>>

\* the space is built up by steps so that TLC's workers share it: first the signal list, then the header,
\* then the facts (ccol = -1 marks "facts not chosen yet")
Init == sigs = <<>> /\ header = <<>> /\ ccol = -1 /\ read = "" /\ decl = ""
AddSig == /\ ccol = -1 /\ header = <<>> /\ Len(sigs) < MaxSigs
          /\ \E s \in SigOptions : sigs' = Append(sigs, s)
          /\ UNCHANGED <<header, ccol, read, decl>>
AddCol == /\ ccol = -1 /\ Len(header) < MaxCols
          /\ \E c \in ColNames : c \notin {header[j] : j \in DOMAIN header} /\ header' = Append(header, c)
          /\ UNCHANGED <<sigs, ccol, read, decl>>
Facts == /\ ccol = -1 /\ header # <<>>
         /\ ccol' \in 0..Len(header)
         /\ read' \in {"", "A", "Q", "V", "U"}
         /\ decl' \in {"", "V", "A"}
         /\ UNCHANGED <<sigs, header>>
Next == AddSig \/ AddCol \/ Facts
Spec == Init /\ [][Next]_vars

-----------------------------------------------------------------------------
Chosen == ccol # -1
Decls == IF decl = "" THEN <<>> ELSE <<[name |-> decl, e |-> N(0)]>>
Prog ==
  (IF read = "" THEN <<>> ELSE <<[k |-> "let", name |-> "t", e |-> Id(read)]>>)
  \o <<[k |-> "row", line |-> 1, entries |-> [c \in DOMAIN header |-> IF c = ccol THEN [k |-> "C"] ELSE N(1)]]>>

Res == BindResult(header, sigs, Decls, CCols(Prog, 1), Reads(Prog, Decls))
FitsHere == Fits(header, sigs, Decls, CCols(Prog, 1), Reads(Prog, Decls))

BindIff == Chosen => ((Res = "ok") <=> FitsHere)

\* running an accepted test against a driver that supplies every output-capable signal
Ct == Compile(header, AllSignals(sigs, Decls), Prog, Decls, TRUE)
Ans == [k |-> "ok", outs |-> [j \in DOMAIN SelectSeq(sigs, IsOut) |-> [s |-> SelectSeq(sigs, IsOut)[j].name, v |-> Num(W1)]]]
RS == [mode |-> "gen", g |-> <<>>]

\* what the code cannot handle when it builds the vectors of a row
Handleable(ct, entries) ==
  /\ \A k \in DOMAIN ct.inIdx : ct.inIdx[k].ent # 0 => entries[ct.inIdx[k].ent].k \in {"num", "Z"}
  /\ \A k \in DOMAIN ct.expIdx : ct.expIdx[k].ent # 0 => entries[ct.expIdx[k].ent].k \in {"num", "Z", "X"}

RECURSIVE RunB(_, _, _)
RunB(it, items, calls) ==       \* -> [items, calls, ok]
  IF Len(items) >= 6 THEN [items |-> items, calls |-> calls, ok |-> TRUE]
  ELSE LET a == IF it.cache = <<>> THEN Advance(it, RS, 0) ELSE [y |-> "cached", it |-> it, pos |-> 0]
       IN  IF a.y = "end" THEN [items |-> Append(items, [k |-> "none", nc |-> 0]), calls |-> calls, ok |-> TRUE]
           ELSE IF a.y = "err" THEN [items |-> Append(items, [k |-> "err", class |-> "runtime", id |-> 0, nc |-> 0]), calls |-> calls, ok |-> TRUE]
           ELSE LET cache0 == IF a.y = "row" THEN <<[entries |-> a.entries, line |-> a.line, upd |-> TRUE]>> ELSE it.cache
                    cache1 == ExpandC(ExpandX(cache0, Ct.inIdx), Ct.inIdx, Ct.expIdx)
                IN  IF ~Handleable(Ct, cache1[Len(cache1)].entries) THEN [items |-> items, calls |-> calls, ok |-> FALSE]
                    ELSE LET c == NextCall(Ct, it, RS, 0)
                             ret == NextReturn(Ct, c.it, c.row, Ans, RS, c.pos)
                         IN  RunB(ret.it,
                                  Append(items, [k |-> "row", line |-> ret.item.line,
                                                 inputs |-> [j \in DOMAIN ret.item.inputs |-> [s |-> ret.item.inputs[j].s, v |-> ret.item.inputs[j].v]],
                                                 outputs |-> ret.item.outputs, nc |-> 1]),
                                  Append(calls, [kind |-> c.call.kind,
                                                 inputs |-> [j \in DOMAIN c.call.inputs |-> [s |-> c.call.inputs[j].s, v |-> c.call.inputs[j].v]]]))

Ctor == CtorFinish(Ct, Ans)
Ran == RunB(Ctor.it, <<>>, <<[kind |-> "read", inputs |-> [j \in DOMAIN DefaultInputs(Ct) |-> [s |-> DefaultInputs(Ct)[j].s, v |-> DefaultInputs(Ct)[j].v]]]>>)

AcceptedRuns == (Chosen /\ Res = "ok") => (Ctor.res = "ok" /\ Ran.ok)

\* C06: complete vectors in signal-list order, bound by name (compared with the level A vectors)
CompleteVector ==
  (Chosen /\ Res = "ok" /\ Ctor.res = "ok" /\ Ran.ok) =>
     \A j \in DOMAIN Ran.items : Ran.items[j].k = "row" =>
        /\ [k \in DOMAIN Ran.items[j].inputs |-> Ran.items[j].inputs[k].s]
             = [k \in DOMAIN SelectSeq(Ct.signals, IsIn) |-> SelectSeq(Ct.signals, IsIn)[k].name]
        /\ (Ran.items[j].outputs # <<>> =>
              [k \in DOMAIN Ran.items[j].outputs |-> Ran.items[j].outputs[k].s]
                = [k \in DOMAIN SelectSeq(Ct.signals, HasExpected) |-> SelectSeq(Ct.signals, HasExpected)[k].name])
        /\ \A k \in DOMAIN Ran.items[j].inputs :
              LET nm == Ran.items[j].inputs[k].s
                  c == ColOf(header, nm)
              IN  c = 0 => Ran.items[j].inputs[k].v = Num(W1)         \* the default of every input in this model

PrintBehaviour ==
  (EmitReplay /\ Chosen) =>
     PrintT(<<"REPLAY", ToJson([header |-> header, signals |-> sigs, decls |-> Decls, prog |-> Prog, own_write |-> TRUE,
                                 load |-> IF Res = "ok" THEN "ok" ELSE "bind", ctor |-> IF Res = "ok" THEN Ctor.res ELSE "none",
                                 script |-> [j \in 1..8 |-> Ans],
                                 calls |-> IF Res = "ok" /\ Ctor.res = "ok" THEN Ran.calls ELSE <<>>,
                                 items |-> IF Res = "ok" /\ Ctor.res = "ok" THEN Ran.items ELSE <<>>])>>)
=============================================================================
