----------------------------- MODULE Word64Core -----------------------------
(***************************************************************************)
(* The part of Word64 that needs neither recursion nor the Bitwise module: *)
(* limbs, wrapping + - unary-, bit-wise complement, comparisons, shifts,   *)
(* single bits and truncation to a width.                                  *)
(*                                                                         *)
(* It is kept apart so that Apalache (which has unbounded integers but no  *)
(* recursive operators) can prove these operators correct against the      *)
(* mathematical integers for ALL words (AP_Word64.tla), where TLC can only *)
(* compare vectors (MC_Word64.tla).  The type annotations in comments are  *)
(* Apalache's; TLC ignores them.                                           *)
(***************************************************************************)
EXTENDS Integers, Sequences

B16 == 65536

\* @type: Seq(Int);
W0   == <<0, 0, 0, 0>>
\* @type: Seq(Int);
W1   == <<0, 0, 0, 1>>
\* @type: Seq(Int);
WM1  == <<65535, 65535, 65535, 65535>>
\* @type: Seq(Int);
WMIN == <<32768, 0, 0, 0>>
\* @type: Seq(Int);
WMAX == <<32767, 65535, 65535, 65535>>

\* @type: (Seq(Int)) => Bool;
IsWord(w) == /\ DOMAIN w = 1..4
             /\ \A i \in 1..4 : w[i] \in 0..65535

\* @type: Seq(Int);
P2 == <<1, 2, 4, 8, 16, 32, 64, 128, 256, 512, 1024, 2048, 4096, 8192,
        16384, 32768, 65536>>
\* @type: (Int) => Int;
Pow2(r) == P2[r + 1]                       \* r \in 0..16

\* little-endian limb i \in 0..3 of w
\* @type: (Seq(Int), Int) => Int;
Limb(w, i) == w[4 - i]

\* @type: (Seq(Int)) => Bool;
WIsNeg(w) == w[1] >= 32768
\* @type: (Seq(Int)) => Bool;
WIsZero(w) == w = W0

\* a small non-negative TLC integer as a word (0 <= n < 2^31)
\* @type: (Int) => Seq(Int);
WFromNat(n) == <<0, 0, n \div B16, n % B16>>

\* @type: (Seq(Int), Seq(Int)) => Seq(Int);
WAdd(a, b) ==
  LET s0 == a[4] + b[4]
      s1 == a[3] + b[3] + (s0 \div B16)
      s2 == a[2] + b[2] + (s1 \div B16)
      s3 == a[1] + b[1] + (s2 \div B16)
  IN  <<s3 % B16, s2 % B16, s1 % B16, s0 % B16>>

\* @type: (Seq(Int)) => Seq(Int);
WNot(a) == <<65535 - a[1], 65535 - a[2], 65535 - a[3], 65535 - a[4]>>
\* @type: (Seq(Int)) => Seq(Int);
WNeg(a) == WAdd(WNot(a), W1)
\* @type: (Seq(Int), Seq(Int)) => Seq(Int);
WSub(a, b) == WAdd(WAdd(a, WNot(b)), W1)

\* a small TLC integer (|n| < 2^31) as a word
\* @type: (Int) => Seq(Int);
WFromInt(n) == IF n >= 0 THEN WFromNat(n) ELSE WNeg(WFromNat(-n))


\* @type: (Seq(Int), Seq(Int)) => Bool;
LexLt(x, y) ==
  \/ x[1] < y[1]
  \/ /\ x[1] = y[1]
     /\ \/ x[2] < y[2]
        \/ /\ x[2] = y[2]
           /\ \/ x[3] < y[3]
              \/ /\ x[3] = y[3]
                 /\ x[4] < y[4]

\* @type: (Seq(Int)) => Seq(Int);
WFlip(a) == <<(a[1] + 32768) % B16, a[2], a[3], a[4]>>
\* @type: (Seq(Int), Seq(Int)) => Bool;
WULt(a, b) == LexLt(a, b)                  \* unsigned <
\* @type: (Seq(Int), Seq(Int)) => Bool;
WLt(a, b)  == LexLt(WFlip(a), WFlip(b))    \* signed <
\* @type: (Seq(Int), Seq(Int)) => Bool;
WLe(a, b)  == a = b \/ WLt(a, b)

\* @type: (Bool) => Seq(Int);
WBool(p) == IF p THEN W1 ELSE W0

-----------------------------------------------------------------------------
\* Shifts.  n \in 0..63.
\* @type: (Seq(Int), Int) => Int;
LimbOr0(w, i) == IF i \in 0..3 THEN Limb(w, i) ELSE 0

\* @type: (Seq(Int), Int) => Seq(Int);
WShlN(a, n) ==
  LET q == n \div 16
      r == n % 16
      R(i) == ((LimbOr0(a, i - q) % Pow2(16 - r)) * Pow2(r))
              + (LimbOr0(a, i - q - 1) \div Pow2(16 - r))
  IN  <<R(3), R(2), R(1), R(0)>>

\* @type: (Seq(Int), Int) => Seq(Int);
WShrN(a, n) ==                             \* arithmetic
  LET q == n \div 16
      r == n % 16
      fill == IF WIsNeg(a) THEN 65535 ELSE 0
      L(i) == IF i \in 0..3 THEN Limb(a, i) ELSE fill
      R(i) == (L(i + q) \div Pow2(r)) + ((L(i + q + 1) % Pow2(r)) * Pow2(16 - r))
  IN  <<R(3), R(2), R(1), R(0)>>

\* @type: (Seq(Int)) => Int;
WLow6(w) == w[4] % 64                      \* the low six bits of a shift count
\* @type: (Seq(Int), Seq(Int)) => Seq(Int);
WShl(a, c) == WShlN(a, WLow6(c))
\* @type: (Seq(Int), Seq(Int)) => Seq(Int);
WShr(a, c) == WShrN(a, WLow6(c))

\* @type: (Seq(Int), Int) => Int;
WBit(a, i) == (Limb(a, i \div 16) \div Pow2(i % 16)) % 2        \* i \in 0..63

\* reduction modulo 2^bits; identity for bits >= 64
\* @type: (Seq(Int), Int) => Seq(Int);
WTrunc(a, bits) ==
  LET K(i) == IF bits >= 16 * (i + 1) THEN Limb(a, i)
              ELSE IF bits <= 16 * i THEN 0
              ELSE Limb(a, i) % Pow2(bits - 16 * i)
  IN  <<K(3), K(2), K(1), K(0)>>

=============================================================================
