------------------------------- MODULE Grammar -------------------------------
(***************************************************************************)
(* Level A: the test grammar, stated line by line (properties C12, C08).   *)
(*                                                                         *)
(* A test is a header line followed by lines.  The body tokens are split   *)
(* at line breaks; every non-empty line is exactly one statement:          *)
(*     let Ident = Expr ;            declare Ident = Expr ;                *)
(*     resetRandom ;                 repeat ( Expr ) Row                   *)
(*     loop ( Ident , Expr )         while ( Expr )                        *)
(*     end loop                      end while                             *)
(*     Row                                                                 *)
(* `loop` / `while` lines open a block that the matching `end` line        *)
(* closes; at the end of the text no block is open; a block-opening line   *)
(* is followed by a line break.  A Row is a sequence of entries            *)
(*     Number | C | X | Z (either case) | ( Expr ) | bits ( Number , Expr )*)
(* whose widths (bits(n,..) counts n <= 64, everything else 1) add up to   *)
(* the number of header columns.  Expressions follow the layered grammar   *)
(*     E8 ::= E7 (('=' | '!=') E7)*      E7 ::= E6 (('<'|'>'|'<='|'>=') E6)* *)
(*     E6 ::= E5 ('|' E5)*   E5 ::= E4 ('^' E4)*   E4 ::= E3 ('&' E3)*     *)
(*     E3 ::= E2 (('<<'|'>>') E2)*   E2 ::= E1 (('+'|'-') E1)*             *)
(*     E1 ::= F (('*'|'/'|'%') F)*                                         *)
(*     F  ::= Number | Ident | f ( E8 {, E8} ) | ('-'|'!'|'~') F | ( E8 )  *)
(* with f one of random/1, ite/3, signExt/2, every level left-associative, *)
(* and every Number below 2^63.  Declared names are pairwise distinct.     *)
(*                                                                         *)
(* This is the lenient variant of DESIGN 6.1: where the grammar of the     *)
(* original tool is stricter (constant loop bounds, ...) nothing is        *)
(* demanded.                                                               *)
(***************************************************************************)
EXTENDS Parser

\* ---- expressions by precedence level; result [ok, j, e]: next index and tree
LevelOps(n) ==
  CASE n = 8 -> {"Equal", "NotEqual"}
    [] n = 7 -> {"LessThan", "GreaterThan", "LessThanOrEqual", "GreaterThanOrEqual"}
    [] n = 6 -> {"Or"}
    [] n = 5 -> {"Xor"}
    [] n = 4 -> {"And"}
    [] n = 3 -> {"ShiftLeft", "ShiftRight"}
    [] n = 2 -> {"Plus", "Minus"}
    [] n = 1 -> {"Times", "Divide", "Reminder"}

KAt(L, i) == IF i <= Len(L) THEN L[i].k ELSE "END"
No == [ok |-> FALSE]

RECURSIVE ALevel(_, _, _), ALoop(_, _, _, _), AFactor(_, _), AArgs(_, _, _)

ALevel(L, i, n) ==
  IF n = 0 THEN AFactor(L, i)
  ELSE LET a == ALevel(L, i, n - 1)
       IN  IF ~a.ok THEN a ELSE ALoop(L, a.j, n, a.e)

\* left-associative chain at level n with left operand `left`
ALoop(L, i, n, left) ==
  IF KAt(L, i) \in LevelOps(n)
  THEN LET b == ALevel(L, i + 1, n - 1)
       IN  IF ~b.ok THEN b
           ELSE ALoop(L, b.j, n, [k |-> "bin", op |-> OpText(L[i].k), l |-> left, r |-> b.e])
  ELSE [ok |-> TRUE, j |-> i, e |-> left]

AFactor(L, i) ==
  LET k == KAt(L, i)
  IN  IF k \in IntKinds
      THEN LET lv == LitValue(k, L[i].cs)
           IN  IF lv.ok THEN [ok |-> TRUE, j |-> i + 1, e |-> [k |-> "num", v |-> lv.w]] ELSE No
      ELSE IF k = "Ident"
      THEN IF KAt(L, i + 1) = "LParen"
           THEN IF Arity(L[i].txt) = -1 THEN No
                ELSE LET a == AArgs(L, i + 2, <<>>)
                     IN  IF ~a.ok \/ KAt(L, a.j) # "RParen" \/ Len(a.args) # Arity(L[i].txt) THEN No
                         ELSE [ok |-> TRUE, j |-> a.j + 1, e |-> [k |-> "fn", name |-> L[i].txt, args |-> a.args]]
           ELSE [ok |-> TRUE, j |-> i + 1, e |-> [k |-> "id", name |-> L[i].txt]]
      ELSE IF k \in UnaryKinds
      THEN LET f == AFactor(L, i + 1)
           IN  IF ~f.ok THEN f ELSE [ok |-> TRUE, j |-> f.j, e |-> [k |-> "un", op |-> OpText(k), e |-> f.e]]
      ELSE IF k = "LParen"
      THEN LET e == ALevel(L, i + 1, 8)
           IN  IF ~e.ok \/ KAt(L, e.j) # "RParen" THEN No ELSE [ok |-> TRUE, j |-> e.j + 1, e |-> e.e]
      ELSE No

AArgs(L, i, acc) ==
  LET e == ALevel(L, i, 8)
  IN  IF ~e.ok THEN [ok |-> FALSE]
      ELSE IF KAt(L, e.j) = "Comma" THEN AArgs(L, e.j + 1, Append(acc, e.e))
      ELSE [ok |-> TRUE, j |-> e.j, args |-> Append(acc, e.e)]

AExpr(L, i) == ALevel(L, i, 8)

\* ---- rows: [ok, width] for the entries L[i..]
RECURSIVE ARow(_, _, _)
ARow(L, i, width) ==
  LET k == KAt(L, i)
  IN  IF k = "END" THEN [ok |-> TRUE, width |-> width]
      ELSE IF k \in IntKinds THEN IF LitValue(k, L[i].cs).ok THEN ARow(L, i + 1, width + 1) ELSE No
      ELSE IF k = "Ident" THEN IF L[i].txt \in {"c", "C", "x", "X", "z", "Z"} THEN ARow(L, i + 1, width + 1) ELSE No
      ELSE IF k = "LParen"
           THEN LET e == AExpr(L, i + 1)
                IN  IF ~e.ok \/ KAt(L, e.j) # "RParen" THEN No ELSE ARow(L, e.j + 1, width + 1)
      ELSE IF k = "Bits"
           THEN IF KAt(L, i + 1) # "LParen" \/ KAt(L, i + 2) \notin IntKinds \/ KAt(L, i + 3) # "Comma" THEN No
                ELSE LET n == LitValue(L[i + 2].k, L[i + 2].cs)
                         e == AExpr(L, i + 4)
                     IN  IF ~n.ok \/ WLt(WFromNat(64), n.w) \/ ~e.ok \/ KAt(L, e.j) # "RParen" THEN No
                         ELSE ARow(L, e.j + 1, width + n.w[4])
      ELSE No

IsRow(L, i, H) == LET r == ARow(L, i, 0) IN r.ok /\ r.width = Len(H)

\* ---- statement lines: the class of a line, "bad" if it is no statement
ExprThen(L, i, closing) ==         \* an expression from i followed by exactly the token kinds `closing`
  LET e == AExpr(L, i)
  IN  e.ok /\ Len(L) = e.j + Len(closing) - 1 /\ \A c \in DOMAIN closing : L[e.j + c - 1].k = closing[c]

LineClass(L, H) ==
  LET k == KAt(L, 1)
  IN  CASE k = "Let" -> IF KAt(L, 2) = "Ident" /\ KAt(L, 3) = "Equal" /\ ExprThen(L, 4, <<"Semi">>) THEN "simple" ELSE "bad"
        [] k = "Declare" -> IF KAt(L, 2) = "Ident" /\ KAt(L, 3) = "Equal" /\ ExprThen(L, 4, <<"Semi">>) THEN "declare" ELSE "bad"
        [] k = "ResetRandom" -> IF Len(L) = 2 /\ L[2].k = "Semi" THEN "simple" ELSE "bad"
        [] k = "Loop" -> IF KAt(L, 2) = "LParen" /\ KAt(L, 3) = "Ident" /\ KAt(L, 4) = "Comma" /\ ExprThen(L, 5, <<"RParen">>)
                         THEN "loop" ELSE "bad"
        [] k = "While" -> IF KAt(L, 2) = "LParen" /\ ExprThen(L, 3, <<"RParen">>) THEN "while" ELSE "bad"
        [] k = "End" -> IF Len(L) = 2 /\ L[2].k = "Loop" THEN "endloop"
                        ELSE IF Len(L) = 2 /\ L[2].k = "While" THEN "endwhile" ELSE "bad"
        [] k = "Repeat" -> IF KAt(L, 2) # "LParen" THEN "bad"
                           ELSE LET e == AExpr(L, 3)
                                IN  IF e.ok /\ KAt(L, e.j) = "RParen" /\ IsRow(L, e.j + 1, H) THEN "simple" ELSE "bad"
        [] k \in RowStartKinds -> IF IsRow(L, 1, H) THEN "simple" ELSE "bad"
        [] OTHER -> "bad"

\* ---- the body as lines.  T: body tokens ending with Eof.
\* lines: sequence of [toks, terminated]; the last line is unterminated when the text does not end in a line break
RECURSIVE SplitLines(_, _, _, _)
SplitLines(T, i, cur, acc) ==
  IF T[i].k = "Eof" THEN Append(acc, [toks |-> cur, terminated |-> FALSE])
  ELSE IF T[i].k = "Eol" THEN SplitLines(T, i + 1, <<>>, Append(acc, [toks |-> cur, terminated |-> TRUE]))
  ELSE SplitLines(T, i + 1, Append(cur, T[i]), acc)

RECURSIVE BodyOk(_, _, _, _, _)
BodyOk(lines, j, H, open, declared) ==
  \* open: stack of "loop" / "while"; declared: names declared so far
  IF j > Len(lines) THEN open = <<>>
  ELSE LET L == lines[j].toks
       IN  IF L = <<>> THEN BodyOk(lines, j + 1, H, open, declared)
           ELSE LET c == LineClass(L, H)
                IN  CASE c = "bad" -> FALSE
                      [] c = "simple" -> BodyOk(lines, j + 1, H, open, declared)
                      [] c = "declare" -> L[2].txt \notin declared
                                          /\ BodyOk(lines, j + 1, H, open, declared \cup {L[2].txt})
                      [] c \in {"loop", "while"} -> lines[j].terminated
                                                    /\ BodyOk(lines, j + 1, H, Append(open, c), declared)
                      [] c = "endloop" -> open # <<>> /\ open[Len(open)] = "loop"
                                          /\ BodyOk(lines, j + 1, H, SubSeq(open, 1, Len(open) - 1), declared)
                      [] c = "endwhile" -> open # <<>> /\ open[Len(open)] = "while"
                                           /\ BodyOk(lines, j + 1, H, SubSeq(open, 1, Len(open) - 1), declared)

\* ---- the header: blank lines, then one line of pairwise distinct names, terminated by a line break
HeaderOk(HT) ==
  LET names == SelectSeq(HT, LAMBDA t : t.k = "SignalName")
  IN  /\ HT # <<>> /\ HT[Len(HT)].k = "HeaderEol"
      /\ names # <<>>
      /\ \A a, b \in DOMAIN names : a # b => names[a].txt # names[b].txt

HeaderOf(HT) == LET names == SelectSeq(HT, LAMBDA t : t.k = "SignalName") IN [j \in DOMAIN names |-> names[j].txt]

IsTest(HT, T) == HeaderOk(HT) /\ BodyOk(SplitLines(T, 1, <<>>, <<>>), 1, HeaderOf(HT), <<>>, {})

\* C19: the line of the k-th row statement (source order) is 1 + the number of line breaks before its first token
\* (header lines included): computed here from the token list alone
=============================================================================
