----------------------------- MODULE AP_Word64At -----------------------------
(***************************************************************************)
(* Apalache, one instance per literal N (module AP_N): for ALL words a     *)
(*   a << N, a >> N (arithmetic), bit N of a    for N \in 0..63            *)
(*   the reduction of a to N bits (C07)         for N \in 0..64            *)
(* are what the integers say.  The 65 instances together establish the     *)
(* invariants Shifts, Truncation and Bits of AP_Word64, which Apalache     *)
(* does not finish when the count is quantified inside one formula (25 min *)
(* without an answer; one instance takes 6 s).                             *)
(*   apalache-mc check --length=0 --inv=InvAt AP_Word64At.tla              *)
(***************************************************************************)
EXTENDS AP_Word64, AP_N

ShiftAt ==
  N <= 63 =>
     /\ IsWord(WShlN(a, N)) /\ U(WShlN(a, N)) = (U(a) * P64[N + 1]) % M64
     /\ IsWord(WShrN(a, N)) /\ S(WShrN(a, N)) = FloorDiv(S(a), P64[N + 1])
     /\ WBit(a, N) = (U(a) \div P64[N + 1]) % 2
\* (a count given as a word is first reduced to its low six bits: ShiftCounts in AP_Word64)

TruncAt ==
  /\ IsWord(WTrunc(a, N)) /\ U(WTrunc(a, N)) = U(a) % P64[N + 1]
\* (bit by bit - the low N bits survive, the others are cleared - follows from this equation and the one for WBit;
\* stated directly it costs Apalache more than ten minutes per instance, so it is left to MC_Word64's vectors)

InvAt == ShiftAt /\ TruncAt
=============================================================================
