------------------------------- MODULE Scope -------------------------------
(***************************************************************************)
(* Static scoping of a test program (level A): which identifiers are read  *)
(* from the device rather than from a variable, and which header columns   *)
(* hold a clock entry `C`.                                                 *)
(*                                                                         *)
(* Rules (the sequential reading of C01 applied to the program text):      *)
(*   - loop(v,n) / repeat(n) open a scope holding v / n for their body;    *)
(*     the bound itself is outside that scope;                             *)
(*   - while opens no scope;                                               *)
(*   - let x = e; makes x visible after e, in the innermost open scope;    *)
(*   - declare v = e; sees no variables at all (C14).                      *)
(* An identifier that is not visible where it is used is a device read.    *)
(***************************************************************************)
EXTENDS Integers, Sequences, FiniteSets

RECURSIVE ExprIds(_)
ExprIds(e) ==
  CASE e.k = "num" -> {}
    [] e.k = "id"  -> {e.name}
    [] e.k = "un"  -> ExprIds(e.e)
    [] e.k = "bin" -> ExprIds(e.l) \cup ExprIds(e.r)
    [] e.k = "fn"  -> UNION {ExprIds(e.args[i]) : i \in DOMAIN e.args}

EntryIds(en) ==
  CASE en.k = "expr" -> ExprIds(en.e)
    [] en.k = "bits" -> ExprIds(en.e)
    [] OTHER -> {}

Visible(scopes) == UNION {scopes[i] : i \in DOMAIN scopes}

\* st = [scopes |-> Seq(SUBSET STRING), reads |-> SUBSET STRING]
Use(st, ids) == [st EXCEPT !.reads = @ \cup (ids \ Visible(st.scopes))]
Bind(st, name) == [st EXCEPT !.scopes[Len(st.scopes)] = @ \cup {name}]

RECURSIVE ScopeBlock(_, _, _)
ScopeBlock(stmts, i, st) ==
  IF i > Len(stmts) THEN st
  ELSE LET s == stmts[i]
       IN  CASE s.k = "let" ->
                  ScopeBlock(stmts, i + 1, Bind(Use(st, ExprIds(s.e)), s.name))
             [] s.k = "row" ->
                  ScopeBlock(stmts, i + 1,
                     Use(st, UNION {EntryIds(s.entries[j]) : j \in DOMAIN s.entries}))
             [] s.k = "loop" ->
                  LET st1 == Use(st, ExprIds(s.max))
                      st2 == [st1 EXCEPT !.scopes = Append(@, {s.var})]
                      st3 == ScopeBlock(s.body, 1, st2)
                  IN  ScopeBlock(stmts, i + 1,
                         [st3 EXCEPT !.scopes = SubSeq(@, 1, Len(@) - 1)])
             [] s.k = "while" ->
                  ScopeBlock(stmts, i + 1, ScopeBlock(s.body, 1, Use(st, ExprIds(s.cond))))
             [] s.k = "reset" -> ScopeBlock(stmts, i + 1, st)

\* does the program call random() anywhere?  (C15: rows are a function of the text, the signal list and the driver's
\* responses "apart from values drawn by random")
RECURSIVE ExprRandom(_)
ExprRandom(e) ==
  CASE e.k \in {"num", "id"} -> FALSE
    [] e.k = "un"  -> ExprRandom(e.e)
    [] e.k = "bin" -> ExprRandom(e.l) \/ ExprRandom(e.r)
    [] e.k = "fn"  -> e.name = "random" \/ \E i \in DOMAIN e.args : ExprRandom(e.args[i])

RECURSIVE UsesRandom(_)
UsesRandom(stmts) ==
  \E i \in DOMAIN stmts :
     LET s == stmts[i]
     IN  CASE s.k = "let" -> ExprRandom(s.e)
           [] s.k = "row" -> \E j \in DOMAIN s.entries : s.entries[j].k \in {"expr", "bits"} /\ ExprRandom(s.entries[j].e)
           [] s.k = "loop" -> ExprRandom(s.max) \/ UsesRandom(s.body)
           [] s.k = "while" -> ExprRandom(s.cond) \/ UsesRandom(s.body)
           [] OTHER -> FALSE

\* decls: Seq([name, e]) -- the declare statements
Reads(prog, decls) ==
  ScopeBlock(prog, 1, [scopes |-> <<{}>>, reads |-> {}]).reads
    \cup UNION {ExprIds(decls[i].e) : i \in DOMAIN decls}

-----------------------------------------------------------------------------
\* Columns (1-based header positions) holding `C` in some row.  bits(n,e)
\* occupies n columns.
EntryWidth(en) == IF en.k = "bits" THEN en.n ELSE 1

RECURSIVE RowCCols(_, _, _)
RowCCols(entries, j, col) ==
  IF j > Len(entries) THEN {}
  ELSE (IF entries[j].k = "C" THEN {col} ELSE {})
         \cup RowCCols(entries, j + 1, col + EntryWidth(entries[j]))

RECURSIVE CCols(_, _)
CCols(stmts, i) ==
  IF i > Len(stmts) THEN {}
  ELSE LET s == stmts[i]
       IN  (CASE s.k = "row" -> RowCCols(s.entries, 1, 1)
              [] s.k = "loop" -> CCols(s.body, 1)
              [] s.k = "while" -> CCols(s.body, 1)
              [] OTHER -> {})
           \cup CCols(stmts, i + 1)

RECURSIVE RowWidth(_, _)
RowWidth(entries, j) ==
  IF j > Len(entries) THEN 0 ELSE EntryWidth(entries[j]) + RowWidth(entries, j + 1)
=============================================================================
