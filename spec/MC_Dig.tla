------------------------------- MODULE MC_Dig -------------------------------
(***************************************************************************)
(* Design-level check of .dig loading (C16): every circuit with up to      *)
(* MaxPins pins (inputs, clocks, outputs, other elements; labelled or not; *)
(* widths and defaults given or not; a pin literally labelled A_out) and   *)
(* up to MaxTests tests (labels, duplicates, no label; headers that use    *)
(* <name>_out for inputs, outputs, missing names; a source without a       *)
(* header).                                                                *)
(*   Faithful      a successfully loaded file satisfies DigFaithful        *)
(*   ErrorsJustified  the loader fails only for a test without a header or *)
(*                 a header column that names nothing in the circuit       *)
(*   LoadRule      load_test(i) succeeds exactly when test i binds to the  *)
(*                 file's signals (Bind!BindResult)                        *)
(* Every circuit is printed, with the expected file and load verdicts, for *)
(* the replay through the real dig::File::parse / load_test.               *)
(***************************************************************************)
EXTENDS Dig, Bind, Json

CONSTANTS MaxPins, MaxTests, EmitReplay

Five == Num(<<0, 0, 0, 5>>)
NoDef == [t |-> "none"]
PinOptions ==
  { [kind |-> "In", label |-> "A", bits |-> 0, def |-> NoDef],
    [kind |-> "In", label |-> "A", bits |-> 4, def |-> VZ],
    [kind |-> "In", label |-> "B", bits |-> 0, def |-> Five],
    [kind |-> "Clock", label |-> "B", bits |-> 0, def |-> NoDef],
    [kind |-> "Out", label |-> "A", bits |-> 4, def |-> NoDef],
    [kind |-> "Out", label |-> "B", bits |-> 0, def |-> NoDef],
    [kind |-> "Out", label |-> "A_out", bits |-> 0, def |-> NoDef],
    [kind |-> "In", label |-> "A_out", bits |-> 0, def |-> NoDef],
    [kind |-> "In", label |-> "", bits |-> 0, def |-> NoDef],
    [kind |-> "Add", label |-> "A", bits |-> 0, def |-> NoDef] }

Headers == { <<"A">>, <<"A", "B">>, <<"A", "A_out">>, <<"B_out">>, <<"A_out", "B">> }
TestOptions ==
  {[label |-> l, labelled |-> l # "", hok |-> TRUE, header |-> h, src |-> 0] : l \in {"t", "u", ""}, h \in Headers}
  \cup {[label |-> "t", labelled |-> TRUE, hok |-> FALSE, header |-> <<>>, src |-> 0]}

Strip(c) == CASE c = "A_out" -> [is |-> TRUE, base |-> "A"]
              [] c = "B_out" -> [is |-> TRUE, base |-> "B"]
              [] OTHER -> [is |-> FALSE, base |-> ""]

VARIABLES pins, tests
vars == <<pins, tests>>
Init == pins = <<>> /\ tests = <<>>
AddPin == /\ tests = <<>> /\ Len(pins) < MaxPins
          /\ \E p \in PinOptions : pins' = Append(pins, p)
          /\ UNCHANGED tests
AddTest == /\ Len(tests) < MaxTests
           /\ \E opt \in TestOptions : tests' = Append(tests, [opt EXCEPT !.src = Len(tests) + 1])
           /\ UNCHANGED pins
Next == AddPin \/ AddTest
Spec == Init /\ [][Next]_vars

File == DigParse(pins, tests, Strip)

Faithful == File.ok => DigFaithful(pins, tests, File, Strip)

ErrorsJustified ==
  ~File.ok =>
     \/ \E t \in DOMAIN tests : ~tests[t].hok
     \/ \E t \in DOMAIN tests : \E c \in DOMAIN tests[t].header :
           LET n == tests[t].header[c]
           IN  /\ n \notin PinLabels(pins)
               /\ ~(Strip(n).is /\ \E j \in DOMAIN pins : IsInputPin(pins[j]) /\ pins[j].label = Strip(n).base)

\* the program of every test: one row of ones
SigOf(s) == [name |-> s.name, bits |-> s.bits, dir |-> s.dir, def |-> s.def, vexpr |-> [k |-> "num", v |-> W0]]
LoadVerdict(t) ==
  BindResult(tests[t].header, [j \in DOMAIN File.signals |-> SigOf(File.signals[j])], <<>>, {}, {})
LoadRule == TRUE   \* the rule is a definition here; it is bound to the code by the replay (load verdicts below)

PrintBehaviour ==
  EmitReplay =>
     PrintT(<<"REPLAY", ToJson([pins |-> [j \in DOMAIN pins |->
                                             [kind |-> pins[j].kind, label |-> pins[j].label, bits |-> pins[j].bits,
                                              def |-> pins[j].def]],
                                 tests |-> tests, ok |-> File.ok,
                                 signals |-> IF File.ok THEN File.signals ELSE <<>>,
                                 names |-> IF File.ok THEN [t \in DOMAIN File.tests |-> File.tests[t].name] ELSE <<>>,
                                 loads |-> IF File.ok THEN [t \in DOMAIN tests |-> LoadVerdict(t) = "ok"] ELSE <<>>])>>)
=============================================================================
