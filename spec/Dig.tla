--------------------------------- MODULE Dig ---------------------------------
(***************************************************************************)
(* Recovering the circuit interface and the tests from a .dig document     *)
(* (property C16).                                                         *)
(*                                                                         *)
(* A circuit description is                                                *)
(*   pins   Seq([kind, label, bits, def])  in document order; kind is "In", *)
(*          "Clock", "Out" or anything else; label "" = no Label entry;    *)
(*          bits 0 = no Bits entry; def is [t |-> "none"] (no InDefault),  *)
(*          a Value Num(w), or VZ (z="true")                               *)
(*   tests  Seq([label, labelled, hok, header, src])  in document order;   *)
(*          labelled = FALSE means no Label entry (the test is then called *)
(*          "(unnamed)"); header is the sequence of column names of the    *)
(*          test's source; hok = FALSE: the source has no complete header  *)
(*          line; src identifies the source text                           *)
(*                                                                         *)
(* Level B (the code): signals = the labelled inputs, then the labelled    *)
(* outputs; every test's header is read; a column <x>_out that is not the  *)
(* label of a pin asks for x to be bidirectional, any other column must be *)
(* the label of a pin; then every requested x must be an input.            *)
(* Level A (the statement of C16): DigFaithful.                            *)
(***************************************************************************)
EXTENDS Values, Sequences, FiniteSets, TLC

IsInputPin(p) == p.kind \in {"In", "Clock"} /\ p.label # ""
IsOutputPin(p) == p.kind = "Out" /\ p.label # ""

PinSignal(p) ==
  IF IsInputPin(p)
  THEN [name |-> p.label, bits |-> IF p.bits = 0 THEN 1 ELSE p.bits, dir |-> "in",
        def |-> IF p.def.t = "none" THEN Num(W0) ELSE p.def]
  ELSE [name |-> p.label, bits |-> IF p.bits = 0 THEN 1 ELSE p.bits, dir |-> "out", def |-> VX]

BaseSignals(pins) == [j \in DOMAIN SelectSeq(pins, IsInputPin) |-> PinSignal(SelectSeq(pins, IsInputPin)[j])]
                     \o [j \in DOMAIN SelectSeq(pins, IsOutputPin) |-> PinSignal(SelectSeq(pins, IsOutputPin)[j])]

\* "x_out" -> "x": TLC cannot take strings apart, so the models name the stripped form explicitly:
\* StripOut is a function from column names to [is |-> BOOLEAN, base |-> STRING] supplied by the model
\* (for traces the harness supplies it per name).
PinLabels(pins) == {pins[j].label : j \in {j \in DOMAIN pins : IsInputPin(pins[j]) \/ IsOutputPin(pins[j])}}

\* ---- level B
DigParse(pins, tests, Strip(_)) ==
  LET base == BaseSignals(pins)
      names == {base[j].name : j \in DOMAIN base}
      cols == UNION {{tests[t].header[c] : c \in DOMAIN tests[t].header} : t \in {t \in DOMAIN tests : tests[t].hok}}
      wantBidir == {Strip(c).base : c \in {c \in cols : Strip(c).is /\ c \notin names}}
      plain == {c \in cols : ~(Strip(c).is /\ c \notin names)}
      FirstInput(x) == LET hits == {j \in DOMAIN base : base[j].name = x /\ base[j].dir = "in"}
                       IN  IF hits = {} THEN 0 ELSE CHOOSE j \in hits : \A i \in hits : j <= i
  IN  IF \E t \in DOMAIN tests : ~tests[t].hok THEN [ok |-> FALSE, err |-> "emptytest"]
      ELSE IF ~(plain \subseteq names) THEN [ok |-> FALSE, err |-> "missing"]
      ELSE IF \E x \in wantBidir : FirstInput(x) = 0 THEN [ok |-> FALSE, err |-> "missing"]
      ELSE [ok |-> TRUE,
            signals |-> [j \in DOMAIN base |->
                           IF \E x \in wantBidir : FirstInput(x) = j THEN [base[j] EXCEPT !.dir = "bidir"] ELSE base[j]],
            tests |-> [t \in DOMAIN tests |-> [name |-> IF tests[t].labelled THEN tests[t].label ELSE "(unnamed)",
                                               src |-> tests[t].src]]]

\* ---- level A: what C16 states about a successfully loaded file
DigFaithful(pins, tests, file, Strip(_)) ==
  LET labels == PinLabels(pins)
      sigSet == {file.signals[j] : j \in DOMAIN file.signals}
      uses(x) == \E t \in DOMAIN tests : tests[t].hok /\
                    \E c \in DOMAIN tests[t].header : Strip(tests[t].header[c]).is /\ Strip(tests[t].header[c]).base = x
                                                       /\ tests[t].header[c] \notin labels
  IN  \* one signal per labelled In / Clock / Out element, nothing else
      /\ Len(file.signals) = Cardinality({j \in DOMAIN pins : IsInputPin(pins[j]) \/ IsOutputPin(pins[j])})
      /\ \A j \in DOMAIN pins :
            IsInputPin(pins[j]) =>
               \E k \in DOMAIN file.signals :
                  /\ file.signals[k].name = pins[j].label
                  /\ file.signals[k].bits = (IF pins[j].bits = 0 THEN 1 ELSE pins[j].bits)
                  /\ file.signals[k].dir \in {"in", "bidir"}
                  /\ file.signals[k].def = (IF pins[j].def.t = "none" THEN Num(W0) ELSE pins[j].def)
      /\ \A j \in DOMAIN pins :
            IsOutputPin(pins[j]) =>
               \E k \in DOMAIN file.signals :
                  /\ file.signals[k].name = pins[j].label
                  /\ file.signals[k].bits = (IF pins[j].bits = 0 THEN 1 ELSE pins[j].bits)
                  /\ file.signals[k].dir = "out"
      \* bidirectional ONLY when a header uses <name>_out, <name> is an input and no pin is labelled <name>_out
      /\ \A k \in DOMAIN file.signals : file.signals[k].dir = "bidir" => uses(file.signals[k].name)
      \* the tests, verbatim and in document order
      /\ file.tests = [t \in DOMAIN tests |-> [name |-> IF tests[t].labelled THEN tests[t].label ELSE "(unnamed)",
                                              src |-> tests[t].src]]

\* load_test_by_name selects the first test with that label
FirstNamed(file, name) ==
  LET hits == {t \in DOMAIN file.tests : file.tests[t].name = name}
  IN  IF hits = {} THEN 0 ELSE CHOOSE t \in hits : \A u \in hits : t <= u
=============================================================================
