-------------------------------- MODULE MC_IO --------------------------------
(***************************************************************************)
(* Design-level check of the interaction with the driver (C02, C03, C04,   *)
(* C13, C14; stuck-freedom for C10).                                       *)
(*                                                                         *)
(* The environment is adversarial: for a family of schema programs (flat,  *)
(* clocked, X-expanded, loops, output-driven while / repeat, shadowing,    *)
(* virtual signals), every output layout of Layouts, both kinds of driver  *)
(* (overriding the write-only call or not), EVERY history of answers over  *)
(* the value alphabet, and every single fault (an error at any call, or a  *)
(* deviation from the first layout at any later call: drop, add, duplicate,*)
(* swap, substitute) is explored.  Invariants over the observable history: *)
(*   Refines        items = items of the sequential reading (Sem)          *)
(*   Protocol       C02  exactly the accounted-for calls, passed verbatim  *)
(*   Attribution    C03  output = what this call's answer said for that    *)
(*                       signal; X when the layout lacks it                *)
(*   Fresh          C04  the device values expressions see are those of    *)
(*                       the latest output-reading call                    *)
(*   Virtual        C14  virtual output = expression over this answer      *)
(*   ErrorIdentity, DeviationIsError, NoRowAfterFault   C13                *)
(***************************************************************************)
EXTENDS Interp, Sem, Json, TLC

CONSTANTS MaxRows,       \* next() calls explored per behaviour
          QVals, RVals,  \* value alphabets of the outputs Q and R (sets of Values)
          WithFaults,    \* explore fault plans
          EmitReplay

\* value alphabets selectable from the configuration file
QSmall == {Num(WFromNat(1)), Num(WFromNat(2))}
RSmall == {Num(WFromNat(1)), VZ}
QMid == {Num(W0), Num(WFromNat(1)), VX}
QBig == {Num(W0), Num(WFromNat(1)), Num(WFromNat(2)), VX}
RBig == {Num(WFromNat(1)), Num(WFromNat(15)), VZ}

N(k) == [k |-> "num", v |-> WFromNat(k)]
Id(s) == [k |-> "id", name |-> s]
Bin(op, l, r) == [k |-> "bin", op |-> op, l |-> l, r |-> r]
Ex(e) == [k |-> "expr", e |-> e]
XE == [k |-> "X"]
CE == [k |-> "C"]
ZE == [k |-> "Z"]
Row(id, es) == [k |-> "row", line |-> id, entries |-> es]

Header4 == <<"CLK", "A", "Q", "V">>
Header3 == <<"CLK", "A", "Q">>
Supplied0 ==
  << [name |-> "Q", bits |-> 4, dir |-> "out", def |-> VX, vexpr |-> N(0)],
     [name |-> "CLK", bits |-> 1, dir |-> "in", def |-> Num(W0), vexpr |-> N(0)],
     [name |-> "D", bits |-> 4, dir |-> "bidir", def |-> VZ, vexpr |-> N(0)],
     [name |-> "A", bits |-> 2, dir |-> "in", def |-> Num(W1), vexpr |-> N(0)],
     [name |-> "R", bits |-> 4, dir |-> "out", def |-> VX, vexpr |-> N(0)] >>
DeclV == << [name |-> "V", e |-> Bin("+", Id("R"), N(1))] >>

\* schema programs; entries are for CLK, A, Q (expected), V (expected of the virtual signal)
Schema ==
  << \* 1 flat with feedback: the second row's stimulus is what the first row read
     << Row(1, <<N(0), N(1), N(1), XE>>), Row(2, <<N(1), Ex(Id("Q")), XE, Ex(Bin("+", Id("R"), N(1)))>>) >>,
     \* 2 clocked row whose expected value reads the device: evaluated before the triple, not refreshed mid-clock
     << Row(1, <<CE, N(1), Ex(Id("Q")), XE>>), Row(2, <<N(0), Ex(Id("Q")), XE, XE>>) >>,
     \* 3 clock x don't-care
     << Row(1, <<CE, XE, N(2), XE>>) >>,
     \* 4 loop
     << [k |-> "loop", var |-> "i", max |-> N(2), body |-> <<Row(1, <<N(0), Ex(Id("i")), XE, Ex(Id("Q"))>>)>>] >>,
     \* 5 output-driven while
     << [k |-> "while", cond |-> Bin("<", Id("Q"), N(2)), body |-> <<Row(1, <<N(0), N(1), XE, XE>>)>>],
        Row(2, <<N(1), N(1), XE, XE>>) >>,
     \* 6 a variable captures an old reading
     << [k |-> "let", name |-> "q", e |-> Id("Q")], Row(1, <<CE, Ex(Id("q")), Ex(Id("Q")), N(3)>>),
        Row(2, <<N(0), Ex(Id("q")), Ex(Id("Q")), XE>>) >>,
     \* 7 don't-care only
     << Row(1, <<XE, XE, N(1), XE>>) >>,
     \* 8 device-driven repeat
     << [k |-> "loop", var |-> "n", max |-> Id("Q"), body |-> <<Row(1, <<N(0), Ex(Id("n")), XE, XE>>)>>],
        Row(2, <<N(1), N(0), XE, XE>>) >>,
     \* 9 a variable shadows a device name; the virtual signal still sees the device
     << [k |-> "let", name |-> "R", e |-> N(2)], Row(1, <<N(0), Ex(Id("R")), Ex(Id("R")), Ex(Id("R"))>>),
        Row(2, <<ZE, N(0), ZE, XE>>) >>,
     \* 10 reads R, which may be high-Z
     << Row(1, <<N(0), N(0), XE, XE>>), Row(2, <<N(0), Ex(Id("R")), XE, XE>>) >>,
     \* 11, 12 no virtual signal and no device read: every layout is acceptable, also one with a single output
     << Row(1, <<N(0), N(1), N(1)>>), Row(2, <<CE, XE, N(2)>>) >>,
     << [k |-> "loop", var |-> "i", max |-> N(2), body |-> <<Row(1, <<N(0), Ex(Id("i")), Ex(Id("i"))>>)>>] >> >>

HeaderOf(p) == IF p >= 11 THEN Header3 ELSE Header4
DeclsOf(p) == IF p >= 11 THEN <<>> ELSE DeclV

Layouts == { <<"Q", "R">>, <<"R", "Q">>, <<"R", "D", "Q">>, <<"Q">>, <<"R">> }

ValsOf(name) == IF name = "Q" THEN QVals ELSE IF name = "R" THEN RVals ELSE {Num(WFromNat(6))}

\* all answers over a layout
RECURSIVE AnswersOver(_, _)
AnswersOver(layout, k) ==
  IF k > Len(layout) THEN {<<>>}
  ELSE {<<[s |-> layout[k], v |-> v]>> \o rest : v \in ValsOf(layout[k]), rest \in AnswersOver(layout, k + 1)}

Faults == IF WithFaults
          THEN {[at |-> a, f |-> f] : a \in 0..3, f \in {"error"}}
               \cup {[at |-> a, f |-> f] : a \in 1..3, f \in {"drop", "add", "dup", "swap", "subst"}}
               \cup {[at |-> 99, f |-> "none"]}
          ELSE {[at |-> 99, f |-> "none"]}

Deviate(outs, f) ==
  CASE f = "drop"  -> SubSeq(outs, 2, Len(outs))
    [] f = "add"   -> Append(outs, [s |-> "Zz", v |-> Num(W1)])
    [] f = "dup"   -> <<outs[1]>> \o outs
    [] f = "swap"  -> IF Len(outs) >= 2 THEN <<outs[2], outs[1]>> \o SubSeq(outs, 3, Len(outs))
                      ELSE Append(outs, [s |-> "Zz", v |-> Num(W1)])
    [] f = "subst" -> <<[s |-> IF outs[1].s = "Q" THEN "R" ELSE "Q", v |-> outs[1].v]>> \o SubSeq(outs, 2, Len(outs))

VARIABLES pi, layout, ownWrite, fault, it, ctor, hist, calls, script, phase
vars == <<pi, layout, ownWrite, fault, it, ctor, hist, calls, script, phase>>

CtOf(p, ow) == Compile(HeaderOf(p), AllSignals(Supplied0, DeclsOf(p)), Schema[p], DeclsOf(p), ow)
Ct == CtOf(pi, ownWrite)
RS == [mode |-> "gen", g |-> <<>>]

\* the answers the environment may give to call number idx (0 = constructor)
AnswersAt(idx) ==
  IF fault.at = idx /\ fault.f = "error" THEN {[k |-> "err", id |-> 40 + idx]}
  ELSE IF fault.at = idx /\ fault.f # "none"
       THEN {[k |-> "ok", outs |-> Deviate(o, fault.f)] : o \in {o \in AnswersOver(layout, 1) : o # <<>>}}
       ELSE {[k |-> "ok", outs |-> o] : o \in AnswersOver(layout, 1)}

Init ==
  /\ pi \in DOMAIN Schema
  /\ layout \in Layouts
  /\ ownWrite \in BOOLEAN
  /\ fault \in Faults
  /\ \E a \in AnswersAt(0) :
       LET fin == CtorFinish(CtOf(pi, ownWrite), a)
       IN  /\ ctor = fin.res
           /\ it = IF fin.res = "ok" THEN fin.it ELSE NewIt(CtOf(pi, ownWrite))
           /\ script = <<a>>
           /\ phase = IF fin.res = "ok" THEN "idle" ELSE "done"
  /\ hist = <<>>
  /\ calls = <<CtorCall(CtOf(pi, ownWrite))>>

Next ==
  /\ phase = "idle"
  /\ Len(hist) < MaxRows
  /\ \E c \in {NextCall(Ct, it, RS, it.rpos)} :
       IF c.k = "none"
       THEN /\ hist' = Append(hist, [k |-> "none", nc |-> 0])
            /\ phase' = "done" /\ it' = c.it
            /\ UNCHANGED <<pi, layout, ownWrite, fault, ctor, calls, script>>
       ELSE IF c.k = "err"
       THEN /\ hist' = Append(hist, [k |-> "err", class |-> "runtime", id |-> 0, nc |-> 0])
            /\ phase' = "done" /\ it' = c.it
            /\ UNCHANGED <<pi, layout, ownWrite, fault, ctor, calls, script>>
       ELSE \E a \in AnswersAt(Len(calls)) :
            \E ret \in {NextReturn(Ct, c.it, c.row, a, RS, c.pos)} :
            /\ calls' = Append(calls, c.call)
            /\ script' = Append(script, a)
            /\ it' = [ret.it EXCEPT !.rpos = ret.pos]
            /\ hist' = Append(hist,
                 IF ret.item.k = "row"
                 THEN [k |-> "row", line |-> ret.item.line, inputs |-> ret.item.inputs,
                       outputs |-> ret.item.outputs, vars |-> Vars(ret.it), nc |-> 1, chk |-> c.row.upd]
                 ELSE [k |-> "err", class |-> ret.item.class, id |-> ret.item.id, nc |-> 1])
            /\ phase' = IF ret.item.k = "row" THEN "idle" ELSE "done"
            /\ UNCHANGED <<pi, layout, ownWrite, fault, ctor>>

Spec == Init /\ [][Next]_vars

-----------------------------------------------------------------------------
StripCh(inputs) == [k \in DOMAIN inputs |-> [s |-> inputs[k].s, v |-> inputs[k].v]]
Strip(h) ==
  [k \in DOMAIN h |->
     IF h[k].k = "row"
     THEN [k |-> "row", line |-> h[k].line, inputs |-> StripCh(h[k].inputs), outputs |-> h[k].outputs, vars |-> h[k].vars]
     ELSE [f \in (DOMAIN h[k]) \ {"nc"} |-> h[k][f]]]

A == Run(Ct, script, RS, Len(hist), 8)

Refines ==
  /\ A.ctor = ctor
  /\ A.items = Strip(hist)
  /\ A.calls = [k \in DOMAIN calls |-> [kind |-> calls[k].kind, inputs |-> StripCh(calls[k].inputs)]]

\* index into calls/script of the call made for hist item j (items before it account for their calls)
RECURSIVE CallsBefore(_)
CallsBefore(j) == IF j = 0 THEN 1 ELSE CallsBefore(j - 1) + hist[j].nc
CallOf(j) == CallsBefore(j - 1) + 1

\* C02
Protocol ==
  /\ calls[1].kind = "read"
  /\ calls[1].inputs = DefaultInputs(Ct)
  /\ Len(calls) = CallsBefore(Len(hist))            \* no call that is not accounted for
  /\ Len(script) = Len(calls)
  /\ \A j \in DOMAIN hist :
        CASE hist[j].k = "row" ->
               /\ hist[j].nc = 1
               /\ calls[CallOf(j)].inputs = hist[j].inputs        \* verbatim, changed flags included
               /\ calls[CallOf(j)].kind = (IF hist[j].chk \/ ~ownWrite THEN "read" ELSE "write")
               /\ ~hist[j].chk => hist[j].outputs = <<>>
               /\ hist[j].chk => Len(hist[j].outputs) = Len(Ct.expIdx)
          [] hist[j].k = "none" -> hist[j].nc = 0 /\ j = Len(hist) /\ phase = "done"
          [] hist[j].k = "err" -> j = Len(hist) /\ phase = "done"
                                  /\ (hist[j].class = "driver" => hist[j].nc = 1)
  /\ ctor # "ok" => hist = <<>> /\ Len(calls) = 1

\* C03 (and the last clause of C13)
AnsVal(outs, name) == LET n == PosFrom(NamesOf(outs), name, 1) IN IF n = 0 THEN VX ELSE outs[n].v
Attribution ==
  \A j \in DOMAIN hist : (hist[j].k = "row" /\ hist[j].chk) =>
     \A k \in DOMAIN hist[j].outputs :
        LET o == hist[j].outputs[k]
            sg == Ct.signals[Ct.expIdx[k].sig]
        IN  /\ o.s = sg.name
            /\ sg.dir # "virt" => o.out = AnsVal(script[CallOf(j)].outs, o.s)

\* C04: between calls, the device values visible to expressions are those of the latest output-reading call
LastChecked ==
  LET js == {j \in DOMAIN hist : hist[j].k = "row" /\ hist[j].chk}
  IN  IF js = {} THEN 1 ELSE CallOf(CHOOSE j \in js : \A i \in js : i <= j)
Fresh == (ctor = "ok" /\ phase = "idle") => it.outs = script[LastChecked].outs

\* C04: the constructor fails exactly when the program reads an output the driver does not supply
CtorRule ==
  script[1].k = "ok" =>
     (ctor = "ok" <=> Reads(Schema[pi], DeclsOf(pi)) \subseteq {script[1].outs[k].s : k \in DOMAIN script[1].outs})

\* C14
Virtual ==
  \A j \in DOMAIN hist : (hist[j].k = "row" /\ hist[j].chk) =>
     \A k \in DOMAIN hist[j].outputs :
        LET sg == Ct.signals[Ct.expIdx[k].sig]
        IN  sg.dir = "virt" =>
              LET r == Eval(sg.vexpr, [env |-> FM_New, outs |-> script[CallOf(j)].outs, vars |-> FALSE], RS, 0)
              IN  r.ok /\ hist[j].outputs[k].out = Num(r.v)

\* C13
ErrorIdentity ==
  \A c \in DOMAIN script : script[c].k = "err" =>
     IF c = 1 THEN ctor = "driver" /\ hist = <<>>
     ELSE /\ hist # <<>>
          /\ hist[Len(hist)] = [k |-> "err", class |-> "driver", id |-> script[c].id, nc |-> 1]
          /\ c = Len(script)
DeviationIsError ==
  \A j \in DOMAIN hist : hist[j].k = "row" /\ hist[j].chk =>
     NamesOf(script[CallOf(j)].outs) = NamesOf(script[1].outs)

Done == phase = "done" \/ Len(hist) >= MaxRows
PrintBehaviour ==
  (EmitReplay /\ Done) =>
     PrintT(<<"REPLAY", ToJson([header |-> HeaderOf(pi), signals |-> Supplied0, decls |-> DeclsOf(pi), prog |-> Schema[pi],
                                 own_write |-> ownWrite, ctor |-> ctor, script |-> script,
                                 calls |-> [k \in DOMAIN calls |-> [kind |-> calls[k].kind, inputs |-> StripCh(calls[k].inputs)]],
                                 items |-> [k \in DOMAIN hist |->
                                     IF hist[k].k = "row"
                                     THEN [k |-> "row", line |-> hist[k].line, inputs |-> StripCh(hist[k].inputs),
                                           outputs |-> hist[k].outputs, vars |-> hist[k].vars, nc |-> 1]
                                     ELSE hist[k]]])>>)
=============================================================================
