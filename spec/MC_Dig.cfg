SPECIFICATION Spec
CONSTANTS
  MaxPins = 2
  MaxTests = 2
  EmitReplay = FALSE
INVARIANTS Faithful ErrorsJustified PrintBehaviour
CHECK_DEADLOCK FALSE
