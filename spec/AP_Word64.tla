------------------------------ MODULE AP_Word64 ------------------------------
(***************************************************************************)
(* Apalache: the limb arithmetic of Word64Core IS 64-bit two's-complement  *)
(* arithmetic - for ALL words, not for vectors.                            *)
(*                                                                         *)
(* Apalache's integers are the mathematical integers (SMT), so the value   *)
(* of a word can be written down directly: U(w) unsigned, S(w) signed.     *)
(* The initial state is an arbitrary pair of words a, b; the invariant     *)
(* states each operator's defining equation over the integers.  One        *)
(* bounded-model-checking step of length 0 therefore proves the equations  *)
(* for all 2^128 pairs (shifts and truncation: for every count / width,    *)
(* instantiated one by one in AP_Word64At, so that every product has a     *)
(* constant factor).                                                       *)
(*   apalache-mc check --length=0 --inv=Inv AP_Word64.tla                  *)
(* Multiplication and division (recursive, non-linear) stay with the       *)
(* vectors of MC_Word64.                                                   *)
(***************************************************************************)
EXTENDS Word64Core

VARIABLES
  \* @type: Seq(Int);
  a,
  \* @type: Seq(Int);
  b

M64 == 18446744073709551616
M63 == 9223372036854775808

\* @type: (Seq(Int)) => Int;
U(w) == w[1] * 281474976710656 + w[2] * 4294967296 + w[3] * 65536 + w[4]
\* @type: (Seq(Int)) => Int;
S(w) == IF w[1] >= 32768 THEN U(w) - M64 ELSE U(w)

\* 2^n as a constant table, n \in 0..64
\* @type: Seq(Int);
P64 == <<1, 2, 4, 8, 16, 32, 64, 128, 256, 512, 1024, 2048, 4096, 8192, 16384, 32768, 65536, 131072, 262144, 524288,
         1048576, 2097152, 4194304, 8388608, 16777216, 33554432, 67108864, 134217728, 268435456, 536870912, 1073741824,
         2147483648, 4294967296, 8589934592, 17179869184, 34359738368, 68719476736, 137438953472, 274877906944,
         549755813888, 1099511627776, 2199023255552, 4398046511104, 8796093022208, 17592186044416, 35184372088832,
         70368744177664, 140737488355328, 281474976710656, 562949953421312, 1125899906842624, 2251799813685248,
         4503599627370496, 9007199254740992, 18014398509481984, 36028797018963968, 72057594037927936,
         144115188075855872, 288230376151711744, 576460752303423488, 1152921504606846976, 2305843009213693952,
         4611686018427387904, 9223372036854775808, 18446744073709551616>>

Init ==
  \E a1 \in 0..65535, a2 \in 0..65535, a3 \in 0..65535, a4 \in 0..65535,
     b1 \in 0..65535, b2 \in 0..65535, b3 \in 0..65535, b4 \in 0..65535 :
       /\ a = <<a1, a2, a3, a4>>
       /\ b = <<b1, b2, b3, b4>>

Next == UNCHANGED <<a, b>>

\* floor division for a possibly negative dividend, from the non-negative case
FloorDiv(x, d) == IF x >= 0 THEN x \div d ELSE -(((-x) + d - 1) \div d)

Representation ==
  /\ IsWord(a) /\ U(a) \in 0..(M64 - 1) /\ S(a) \in (-M63)..(M63 - 1)
  /\ (U(a) = U(b)) <=> (a = b)
  /\ WIsNeg(a) <=> S(a) < 0

Additive ==
  /\ IsWord(WAdd(a, b)) /\ U(WAdd(a, b)) = (U(a) + U(b)) % M64
  /\ IsWord(WSub(a, b)) /\ U(WSub(a, b)) = (U(a) - U(b) + M64) % M64
  /\ IsWord(WNeg(a))    /\ U(WNeg(a)) = (M64 - U(a)) % M64
  /\ IsWord(WNot(a))    /\ U(WNot(a)) = M64 - 1 - U(a)
  \* the same, read as signed numbers: the result is congruent modulo 2^64 and in range
  /\ (S(WAdd(a, b)) - (S(a) + S(b))) % M64 = 0
  /\ (S(WSub(a, b)) - (S(a) - S(b))) % M64 = 0
  /\ (S(WNeg(a)) + S(a)) % M64 = 0
  /\ S(WNot(a)) = -S(a) - 1

Order ==
  /\ WULt(a, b) <=> U(a) < U(b)
  /\ WLt(a, b) <=> S(a) < S(b)
  /\ WLe(a, b) <=> S(a) <= S(b)

Shifts ==
  \A n \in 0..63 :
     /\ IsWord(WShlN(a, n)) /\ U(WShlN(a, n)) = (U(a) * P64[n + 1]) % M64
     /\ IsWord(WShrN(a, n)) /\ S(WShrN(a, n)) = FloorDiv(S(a), P64[n + 1])

ShiftCounts ==
  /\ WLow6(b) = U(b) % 64
  /\ WShl(a, b) = WShlN(a, U(b) % 64)
  /\ WShr(a, b) = WShrN(a, U(b) % 64)

Truncation ==
  \A n \in 0..64 :
     /\ IsWord(WTrunc(a, n)) /\ U(WTrunc(a, n)) = U(a) % P64[n + 1]

Bits ==
  \A i \in 0..63 : WBit(a, i) = (U(a) \div P64[i + 1]) % 2

Small ==
  \A k \in {0, 1, 2, 65535, 65536, 2147483647} :
     /\ U(WFromNat(k)) = k
     /\ S(WFromInt(-k)) = -k

Inv == Representation /\ Additive /\ Order /\ ShiftCounts /\ Small
\* Shifts, Truncation and Bits quantify over the count inside one formula; Apalache gives no answer within 25 minutes.
\* They are established instance by instance instead (AP_Word64At, one literal count per run, 6-20 s each).
=============================================================================
