SPECIFICATION Spec
CONSTANTS
  MaxLen = 0
  EmitReplay = FALSE
  RowMode = FALSE
  UseCorpus = TRUE
INVARIANTS NoPanicState SpansOk AcceptSound AcceptComplete LinesOk CorpusValid PrintBehaviour
CHECK_DEADLOCK FALSE
