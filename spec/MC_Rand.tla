------------------------------- MODULE MC_Rand -------------------------------
(***************************************************************************)
(* Design-level check of random / resetRandom (C17, part of C10).          *)
(*                                                                         *)
(* The generator is abstract: the k-th draw since the last (re)seed with   *)
(* bound n yields g[k] % n, for EVERY g : 1..GLen -> 0..2 (so every draw   *)
(* is in range by construction and resetRandom replays by construction:    *)
(* that is the statement of C17).  What TLC checks is that the resumable   *)
(* iterator threads the draw position correctly through its calls: for     *)
(* every program up to the bound with random() in row entries, let, loop   *)
(* bounds, while conditions and both branches of ite, and resetRandom      *)
(* anywhere, level B yields exactly the items of the sequential reading    *)
(* (Refines) - one draw per evaluated random(), none for the unselected    *)
(* branch, positions restarting at resetRandom.  No replay: the real       *)
(* generator cannot be told what to draw; the code is bound by traces with *)
(* logged draws (Trace_Interp: rng.tape, rng.range, rng.replay).           *)
(***************************************************************************)
EXTENDS Interp, Sem, Progs, Json, TLC

CONSTANTS MaxSize, MaxDepth, MaxRows, EmitReplay, GLen

N(k) == [k |-> "num", v |-> WFromNat(k)]
Id(s) == [k |-> "id", name |-> s]
Bin(op, l, r) == [k |-> "bin", op |-> op, l |-> l, r |-> r]
Neg(e) == [k |-> "un", op |-> "-", e |-> e]
Ex(e) == [k |-> "expr", e |-> e]
XE == [k |-> "X"]

Header == <<"A", "B", "i">>
Signals ==
  << [name |-> "A", bits |-> 4, dir |-> "in", def |-> Num(WFromNat(3)), vexpr |-> N(0)],
     [name |-> "a", bits |-> 8, dir |-> "out", def |-> VX, vexpr |-> N(0)],
     [name |-> "B", bits |-> 4, dir |-> "in", def |-> VZ, vexpr |-> N(0)],
     [name |-> "i", bits |-> 8, dir |-> "out", def |-> VX, vexpr |-> N(0)],
     [name |-> "n", bits |-> 8, dir |-> "out", def |-> VX, vexpr |-> N(0)],
     [name |-> "b", bits |-> 8, dir |-> "out", def |-> VX, vexpr |-> N(0)] >>

Fn(name, args) == [k |-> "fn", name |-> name, args |-> args]
Rnd(n) == Fn("random", <<N(n)>>)
Row(es) == [k |-> "row", line |-> 0, entries |-> es]
Rows == { Row(<<Ex(Rnd(3)), Ex(Id("b")), XE>>),
          Row(<<Ex(Fn("ite", <<Id("b"), Rnd(2), N(3)>>)), Ex(Fn("ite", <<Id("b"), N(1), Rnd(3)>>)), XE>>),
          Row(<<[k |-> "bits", n |-> 2, e |-> Rnd(3)], Ex(Bin("+", Rnd(2), Rnd(2)))>>) }
Lets == { [k |-> "let", name |-> "b", e |-> Rnd(2)],
          [k |-> "let", name |-> "b", e |-> N(0)] }
Repeats == { [k |-> "loop", var |-> "n", max |-> Rnd(3), body |-> <<Row(<<Ex(Id("n")), Ex(Rnd(2)), XE>>)>>] }
Atoms == Rows \cup Lets \cup Repeats \cup {[k |-> "reset"]}
Loops == {[var |-> "i", max |-> m] : m \in {N(2), Rnd(3)}}
Whiles == {Bin("<", Rnd(3), N(1))}

\* a `let` must not assign the counter of the loop whose frame it runs in (DESIGN 6.1)
RECURSIVE NoCounterLet(_, _)
NoCounterLet(stmts, counter) ==
  \A j \in DOMAIN stmts :
     LET s == stmts[j]
     IN  CASE s.k = "let" -> s.name # counter
           [] s.k = "loop" -> NoCounterLet(s.body, s.var)
           [] s.k = "while" -> NoCounterLet(s.body, counter)
           [] OTHER -> TRUE

\* the driver: fixed answers; a differs between the constructor and later calls so that a stale read shows
Answer(idx) ==
  [k |-> "ok", outs |-> << [s |-> "a", v |-> Num(WFromNat(IF idx = 0 THEN 1 ELSE 3))],
                           [s |-> "i", v |-> Num(WFromNat(9))],
                           [s |-> "n", v |-> Num(WFromNat(11))],
                           [s |-> "b", v |-> Num(WFromNat(5 + (idx % 2)))] >>]
Script(n) == [k \in 1..n |-> Answer(k - 1)]

RSOf(gg) == [mode |-> "gen", g |-> gg]
Fuel == 8

Ct(p) == Compile(Header, Signals, p, <<>>, TRUE)

\* programs whose sequential reading terminates within the fuel (the property quantifies over terminating programs)
Terminating(p, gg) == Run(Ct(p), Script(MaxRows + 2), RSOf(gg), MaxRows + 1, Fuel).stop # "fuel"

Candidates ==
  {Renumber(p) : p \in {p \in ProgsUpTo(MaxSize, MaxDepth, Atoms, Loops, Whiles) :
                          HasRow(p) /\ NoCounterLet(p, "")}}

VARIABLES prog, it, hist, calls, phase, g
vars == <<prog, it, hist, calls, phase, g>>
RS == RSOf(g)

Init ==
  /\ g \in [1..GLen -> 0..2]
  /\ prog \in {p \in Candidates : Terminating(p, g)}
  /\ LET fin == CtorFinish(Ct(prog), Answer(0))
     IN  /\ fin.res = "ok"
         /\ it = fin.it
  /\ hist = <<>>
  /\ calls = <<CtorCall(Ct(prog))>>
  /\ phase = "idle"

StripCh(inputs) == [k \in DOMAIN inputs |-> [s |-> inputs[k].s, v |-> inputs[k].v]]

Next ==
  /\ phase = "idle"
  /\ Len(hist) < MaxRows
  /\ \E c \in {NextCall(Ct(prog), it, RS, it.rpos)} :
       IF c.k = "none"
       THEN /\ hist' = Append(hist, [k |-> "none", nc |-> 0])
            /\ phase' = "done" /\ it' = [c.it EXCEPT !.rpos = c.pos] /\ UNCHANGED <<prog, calls, g>>
       ELSE IF c.k = "err"
       THEN /\ hist' = Append(hist, [k |-> "err", class |-> "runtime", id |-> 0, nc |-> 0])
            /\ phase' = "done" /\ it' = c.it /\ UNCHANGED <<prog, calls, g>>
       ELSE \E ret \in {NextReturn(Ct(prog), c.it, c.row, Answer(Len(calls)), RS, c.pos)} :
            /\ calls' = Append(calls, [kind |-> c.call.kind, inputs |-> StripCh(c.call.inputs)])
            /\ it' = [ret.it EXCEPT !.rpos = ret.pos]
            /\ hist' = Append(hist,
                 IF ret.item.k = "row"
                 THEN [k |-> "row", line |-> ret.item.line, inputs |-> StripCh(ret.item.inputs),
                       outputs |-> ret.item.outputs, vars |-> Vars(ret.it), nc |-> 1]
                 ELSE [k |-> "err", class |-> ret.item.class, id |-> ret.item.id, nc |-> 1])
            /\ phase' = IF ret.item.k = "row" THEN "idle" ELSE "done"
            /\ UNCHANGED <<prog, g>>

Spec == Init /\ [][Next]_vars

-----------------------------------------------------------------------------
\* Level A run for the items produced so far
A == Run(Ct(prog), Script(Len(calls)), RS, Len(hist), Fuel)

\* hist items additionally carry nc, the number of driver calls of that step (for the replay)
NoNc(h) == [k \in DOMAIN h |-> [f \in (DOMAIN h[k]) \ {"nc"} |-> h[k][f]]]
\* every draw of a behaviour must be covered by the tape (GLen bounds the draws explored)
Refines == A.items = NoNc(hist)
CallsAgree == A.calls = [k \in DOMAIN calls |-> IF k = 1 THEN [kind |-> "read", inputs |-> StripCh(calls[1].inputs)] ELSE calls[k]]

\* one variable frame per active loop; between calls the innermost block is in state Iterate
FrameDiscipline ==
  phase = "idle" =>
     /\ Top(it).st = "Iterate"
     /\ \A k \in 1..(Len(it.ctl) - 1) : it.ctl[k].st \in {"IterateInner", "WhileIterateInner"}
     /\ FM_Depth(it.env) = Cardinality({k \in 1..(Len(it.ctl) - 1) : it.ctl[k].st = "IterateInner"})

\* device outputs never appear in vars(); (covered by Refines: the items carry the view)
VarsAreVars ==
  \A k \in DOMAIN hist : hist[k].k = "row" =>
     \A pr \in hist[k].vars : pr[1] \in {"a", "b", "i", "n"}

Done == phase = "done" \/ Len(hist) >= MaxRows
\* vacuity guards, printed once per behaviour that exercises them
PrintBehaviour == TRUE
=============================================================================
