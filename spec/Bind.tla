-------------------------------- MODULE Bind --------------------------------
(***************************************************************************)
(* Binding a parsed test to a signal list (properties C06 and C11).        *)
(*                                                                         *)
(* A signal is [name, bits, dir, def, vexpr] with dir one of               *)
(* "in" "out" "bidir" "virt".  `header` is the sequence of column names.   *)
(*                                                                         *)
(* Level B (as the code does it): index tables that link signals to header *)
(* columns, then the checks in code order.  Level A: the declarative       *)
(* judgement Fits.  MC_Bind checks  BindOk <=> Fits.                       *)
(***************************************************************************)
EXTENDS Integers, Sequences, FiniteSets, Scope

IsIn(s)  == s.dir \in {"in", "bidir"}
IsOut(s) == s.dir \in {"out", "bidir"}        \* readable by an expression
HasExpected(s) == s.dir \in {"out", "bidir", "virt"}

RECURSIVE PosFrom(_, _, _)
PosFrom(seq, x, i) == IF i > Len(seq) THEN 0 ELSE IF seq[i] = x THEN i ELSE PosFrom(seq, x, i + 1)
HeaderPos(header, name) == PosFrom(header, name, 1)

Iota(n) == [i \in 1..n |-> i]

\* index tables: one entry per input-capable signal / per signal with an
\* expected value, in signal-list order; ent = 0 means "not in the header"
InIdx(header, signals) ==
  [k \in DOMAIN SelectSeq(Iota(Len(signals)), LAMBDA i : IsIn(signals[i])) |->
     LET i == SelectSeq(Iota(Len(signals)), LAMBDA j : IsIn(signals[j]))[k]
     IN  [sig |-> i, ent |-> HeaderPos(header, signals[i].name)]]

ExpIdx(header, signals) ==
  [k \in DOMAIN SelectSeq(Iota(Len(signals)), LAMBDA i : HasExpected(signals[i])) |->
     LET i == SelectSeq(Iota(Len(signals)), LAMBDA j : HasExpected(signals[j]))[k]
     IN  [sig |-> i,
          ent |-> IF signals[i].dir = "bidir"
                  THEN HeaderPos(header, signals[i].name \o "_out")
                  ELSE HeaderPos(header, signals[i].name)]]

IsInputCol(inIdx, c) == \E k \in DOMAIN inIdx : inIdx[k].ent = c
IsExpectedCol(expIdx, c) == \E k \in DOMAIN expIdx : expIdx[k].ent = c

-----------------------------------------------------------------------------
\* Level B: the checks of with_signals in code order.
\*   supplied : Seq(Signal)  the caller's list
\*   decls    : Seq([name, e])  the declare statements, in source order
\*   ccols    : set of header positions holding C in some row
\*   reads    : set of names read from the device
DupNames(supplied) ==
  \E i, j \in DOMAIN supplied : i < j /\ supplied[i].name = supplied[j].name

VirtClash(supplied, decls) ==
  \E i \in DOMAIN supplied, j \in DOMAIN decls : supplied[i].name = decls[j].name

VirtSignals(decls) ==
  [j \in DOMAIN decls |->
     [name |-> decls[j].name, bits |-> 64, dir |-> "virt", vexpr |-> decls[j].e]]

AllSignals(supplied, decls) == supplied \o VirtSignals(decls)

BindResult(header, supplied, decls, ccols, reads) ==
  LET sigs == AllSignals(supplied, decls)
      inIdx == InIdx(header, sigs)
      expIdx == ExpIdx(header, sigs)
  IN  IF DupNames(supplied) THEN "dup"
      ELSE IF VirtClash(supplied, decls) THEN "virtual"
      ELSE IF \E c \in DOMAIN header : ~IsInputCol(inIdx, c) /\ ~IsExpectedCol(expIdx, c)
           THEN "unknown"
      ELSE IF \E c \in ccols : c \notin DOMAIN header
                                 \/ ~\E i \in DOMAIN sigs : sigs[i].name = header[c] /\ IsIn(sigs[i])
           THEN "notinput"
      ELSE IF \E n \in reads : ~\E i \in DOMAIN sigs : sigs[i].name = n /\ IsOut(sigs[i])
           THEN "notoutput"
      ELSE "ok"

-----------------------------------------------------------------------------
\* Level A: the judgement of property C11.
Fits(header, supplied, decls, ccols, reads) ==
  LET names == {supplied[i].name : i \in DOMAIN supplied}
      vnames == {decls[j].name : j \in DOMAIN decls}
      inputs == {supplied[i].name : i \in {i \in DOMAIN supplied : IsIn(supplied[i])}}
      outputs == {supplied[i].name : i \in {i \in DOMAIN supplied : IsOut(supplied[i])}}
      bidirs == {supplied[i].name : i \in {i \in DOMAIN supplied : supplied[i].dir = "bidir"}}
      plainOut == {supplied[i].name : i \in {i \in DOMAIN supplied : supplied[i].dir = "out"}}
  IN  /\ Cardinality(names) = Len(supplied)              \* distinct
      /\ names \cap vnames = {}                          \* also from virtual names
      /\ \A c \in DOMAIN header :                        \* every column names something
            \/ header[c] \in inputs
            \/ header[c] \in plainOut
            \/ header[c] \in vnames
            \/ \E b \in bidirs : header[c] = b \o "_out"
      /\ \A c \in ccols : c \in DOMAIN header /\ header[c] \in inputs
      /\ \A n \in reads : n \in outputs
=============================================================================
