------------------------------- MODULE MC_Expr -------------------------------
(***************************************************************************)
(* Design-level check of expression syntax (C08): for EVERY sequence of up *)
(* to MaxOps binary operators (all sixteen) between atoms, every choice of *)
(* unary prefixes on the atoms and every parenthesised sub-range, the tree *)
(* built by the code's right-spine insertion (Parser!ParseExpr, level B)   *)
(* is the tree of the layered precedence grammar (Grammar!AExpr, level A:  *)
(* unary tightest, then * / %, + -, << >>, &, ^, |, < > <= >=, = !=, each  *)
(* level left-associative, parentheses overriding).                        *)
(* Each operator sequence is printed with its tree for the replay through  *)
(* the real parser.                                                        *)
(***************************************************************************)
EXTENDS Grammar, Json, TLC, FiniteSets

CONSTANTS MaxOps, FullUpTo, EmitReplay
\* FullUpTo: unary prefixes and parentheses are varied for sequences of at most this many operators

OpKinds == BinKinds
Atoms == <<"a", "b", "c", "d", "e", "f", "g">>
UnChoices == {<<>>, <<"Minus">>, <<"LogicalNot", "BinaryNot">>}

T0(k, txt) == [k |-> k, s |-> 0, e |-> 0, txt |-> txt, cs |-> <<>>]

\* tokens of  u1 a op1 u2 b op2 ...  with the atoms lo..hi wrapped in one pair of parentheses (lo = 0: none)
RECURSIVE Build(_, _, _, _, _)
Build(ops, un, lo, hi, i) ==       \* atoms i .. Len(ops)+1
  LET pre == [j \in DOMAIN un[i] |-> T0(un[i][j], "")]
      open == IF i = lo THEN <<T0("LParen", "")>> ELSE <<>>
      close == IF i = hi THEN <<T0("RParen", "")>> ELSE <<>>
      \* a parenthesis opens before the unary prefix of its first atom
      atom == open \o pre \o <<T0("Ident", Atoms[i])>> \o close
  IN  IF i = Len(ops) + 1 THEN atom
      ELSE atom \o <<T0(ops[i], "")>> \o Build(ops, un, lo, hi, i + 1)

Place(T) == [j \in DOMAIN T |-> [T[j] EXCEPT !.s = 2 * j, !.e = 2 * j + 1]]
WithEof(T) == Place(T) \o <<[k |-> "Eof", s |-> 2 * (Len(T) + 1), e |-> 2 * (Len(T) + 1), txt |-> "", cs |-> <<>>]>>
PS0 == [pos |-> 1, line |-> 1, vars |-> FM_New, virt |-> <<>>, expIn |-> <<>>, reads |-> <<>>]

Agree(T) ==
  LET b == ParseExpr(WithEof(T), 2 * (Len(T) + 1), PS0)
      a == AExpr(Place(T), 1)
  IN  /\ b.ok /\ a.ok
      /\ b.ps.pos = Len(T) + 1 /\ a.j = Len(T) + 1
      /\ b.v = a.e

VARIABLE ops
Init == ops = <<>>
Next == Len(ops) < MaxOps /\ \E o \in OpKinds : ops' = Append(ops, o)
Spec == Init /\ [][Next]_ops

NoUn(n) == [i \in 1..n |-> <<>>]
Ranges(n) == {<<lo, hi>> : lo \in 1..n, hi \in 1..n} \cap {r \in (1..n) \X (1..n) : r[1] < r[2]}

ParseEquiv ==
  LET n == Len(ops) + 1
  IN  /\ Agree(Build(ops, NoUn(n), 0, 0, 1))
      /\ Len(ops) <= FullUpTo =>
            \A un \in [1..n -> UnChoices], r \in Ranges(n) \cup {<<0, 0>>} : Agree(Build(ops, un, r[1], r[2], 1))

\* two spot checks of what the table means, stated directly
Spot ==
  /\ AExpr(Place(Build(<<"Plus", "Times">>, NoUn(3), 0, 0, 1)), 1).e
       = [k |-> "bin", op |-> "+", l |-> [k |-> "id", name |-> "a"],
          r |-> [k |-> "bin", op |-> "*", l |-> [k |-> "id", name |-> "b"], r |-> [k |-> "id", name |-> "c"]]]
  /\ AExpr(Place(Build(<<"Minus", "Minus">>, NoUn(3), 0, 0, 1)), 1).e
       = [k |-> "bin", op |-> "-", l |-> [k |-> "bin", op |-> "-", l |-> [k |-> "id", name |-> "a"], r |-> [k |-> "id", name |-> "b"]],
          r |-> [k |-> "id", name |-> "c"]]
  /\ AExpr(Place(Build(<<"Equal", "LessThan", "Or">>, NoUn(4), 0, 0, 1)), 1).e.op = "="

SrcOf(t) == IF t.k = "Ident" THEN t.txt ELSE IF t.k = "LParen" THEN "(" ELSE IF t.k = "RParen" THEN ")" ELSE OpText(t.k)
\* one behaviour per operator sequence: the plain form, and one form with prefixes and parentheses picked from the sequence itself
PrintBehaviour ==
  EmitReplay =>
     LET n == Len(ops) + 1
         plain == Build(ops, NoUn(n), 0, 0, 1)
         un2 == [i \in 1..n |-> IF i % 2 = Len(ops) % 2 THEN <<"Minus">> ELSE IF i = 1 THEN <<"LogicalNot", "BinaryNot">> ELSE <<>>]
         fancy == IF n >= 3 THEN Build(ops, un2, 2, n, 1) ELSE Build(ops, un2, 0, 0, 1)
     IN  /\ PrintT(<<"REPLAY", ToJson([src |-> [j \in DOMAIN plain |-> SrcOf(plain[j])], tree |-> AExpr(Place(plain), 1).e])>>)
         /\ PrintT(<<"REPLAY", ToJson([src |-> [j \in DOMAIN fancy |-> SrcOf(fancy[j])], tree |-> AExpr(Place(fancy), 1).e])>>)
=============================================================================
