------------------------------- MODULE MC_Ctl -------------------------------
(***************************************************************************)
(* Design-level check of control flow and variables (C01, C18, part of C10)*)
(*                                                                         *)
(* For EVERY well-nested program up to MaxSize statements / MaxDepth       *)
(* nesting over the alphabet below, the resumable iterator (Interp, level  *)
(* B) is stepped next() by next() against a driver with fixed answers, and *)
(* TLC checks in every reachable state that                                *)
(*   Refines          the items returned so far are exactly the items the  *)
(*                    sequential reading (Sem, level A) yields             *)
(*   VarsView         vars() after a row = the variables in scope when the *)
(*                    row was evaluated (C18)                              *)
(*   FrameDiscipline  one variable frame per active loop                   *)
(*   CallsAgree       the driver calls made are those of the reading       *)
(* Terminal states print the behaviour as JSON; the harness replays each   *)
(* through the real crate (spec -> impl).                                  *)
(*                                                                         *)
(* The device has outputs named like the variables (a, i, n), so every     *)
(* program binds: an identifier that is not in scope is a device read.     *)
(***************************************************************************)
EXTENDS Interp, Sem, Progs, Json, TLC

CONSTANTS MaxSize, MaxDepth, MaxRows, EmitReplay, Shard, NShards, SmallAlphabet

N(k) == [k |-> "num", v |-> WFromNat(k)]
Id(s) == [k |-> "id", name |-> s]
Bin(op, l, r) == [k |-> "bin", op |-> op, l |-> l, r |-> r]
Neg(e) == [k |-> "un", op |-> "-", e |-> e]
Ex(e) == [k |-> "expr", e |-> e]
XE == [k |-> "X"]

Header == <<"A", "B", "i">>
Signals ==
  << [name |-> "A", bits |-> 4, dir |-> "in", def |-> Num(WFromNat(3)), vexpr |-> N(0)],
     [name |-> "a", bits |-> 8, dir |-> "out", def |-> VX, vexpr |-> N(0)],
     [name |-> "B", bits |-> 4, dir |-> "in", def |-> VZ, vexpr |-> N(0)],
     [name |-> "i", bits |-> 8, dir |-> "out", def |-> VX, vexpr |-> N(0)],
     [name |-> "n", bits |-> 8, dir |-> "out", def |-> VX, vexpr |-> N(0)],
     [name |-> "b", bits |-> 8, dir |-> "out", def |-> VX, vexpr |-> N(0)] >>

Row(es) == [k |-> "row", line |-> 0, entries |-> es]
Rows == { Row(<<Ex(Id("a")), Ex(Id("i")), XE>>),
          Row(<<[k |-> "bits", n |-> 2, e |-> Id("i")], Ex(Id("b"))>>),
          Row(<<Ex(Id("n")), N(1), Ex(Bin("+", Id("a"), Id("b")))>>) }
Lets == { [k |-> "let", name |-> "a", e |-> N(0)],
          [k |-> "let", name |-> "a", e |-> Bin("+", Id("a"), N(1))],
          [k |-> "let", name |-> "b", e |-> Id("i")] }
Repeats == { [k |-> "loop", var |-> "n", max |-> m,
              body |-> <<Row(<<Ex(Id("n")), Ex(Id("i")), XE>>)>>] : m \in {N(0), N(2), Id("a")} }
AtomsFull == Rows \cup Lets \cup Repeats \cup {[k |-> "reset"]}
\* a reduced alphabet lets the enumeration reach one statement more (TLC builds the initial states on one thread)
AtomsSmall == { Row(<<Ex(Id("a")), Ex(Id("i")), XE>>), Row(<<Ex(Id("n")), N(1), Ex(Bin("+", Id("a"), Id("b")))>>),
                [k |-> "let", name |-> "a", e |-> Bin("+", Id("a"), N(1))], [k |-> "let", name |-> "b", e |-> Id("i")],
                [k |-> "loop", var |-> "n", max |-> Id("a"), body |-> <<Row(<<Ex(Id("n")), Ex(Id("i")), XE>>)>>] }
Atoms == IF SmallAlphabet THEN AtomsSmall ELSE AtomsFull
LoopsFull == {[var |-> "i", max |-> m] : m \in {Neg(N(1)), N(0), N(2), Id("a")}}
               \cup {[var |-> "a", max |-> N(2)]}
\* (a - 2 is negative, zero or positive: the loop runs as long as the condition is NON-ZERO)
WhilesFull == {Bin("<", Id("a"), N(2)), Bin("<", Id("i"), N(1)), N(0), Bin("-", Id("a"), N(2))}
Loops == IF SmallAlphabet THEN {[var |-> "i", max |-> N(0)], [var |-> "i", max |-> Id("a")], [var |-> "a", max |-> N(2)]} ELSE LoopsFull
Whiles == IF SmallAlphabet THEN {Bin("<", Id("a"), N(2)), Bin("-", Id("a"), N(2))} ELSE WhilesFull

\* a `let` must not assign the counter of the loop whose frame it runs in (DESIGN 6.1)
RECURSIVE NoCounterLet(_, _)
NoCounterLet(stmts, counter) ==
  \A j \in DOMAIN stmts :
     LET s == stmts[j]
     IN  CASE s.k = "let" -> s.name # counter
           [] s.k = "loop" -> NoCounterLet(s.body, s.var)
           [] s.k = "while" -> NoCounterLet(s.body, counter)
           [] OTHER -> TRUE

\* the driver: fixed answers; a differs between the constructor and later calls so that a stale read shows
Answer(idx) ==
  [k |-> "ok", outs |-> << [s |-> "a", v |-> Num(WFromNat(IF idx = 0 THEN 1 ELSE 3))],
                           [s |-> "i", v |-> Num(WFromNat(9))],
                           [s |-> "n", v |-> Num(WFromNat(11))],
                           [s |-> "b", v |-> Num(WFromNat(5 + (idx % 2)))] >>]
Script(n) == [k \in 1..n |-> Answer(k - 1)]

RS == [mode |-> "gen", g |-> <<>>]
Fuel == 8

Ct(p) == Compile(Header, Signals, p, <<>>, TRUE)

\* programs whose sequential reading terminates within the fuel (the property quantifies over terminating programs)
Terminating(p) == Run(Ct(p), Script(MaxRows + 2), RS, MaxRows + 1, Fuel).stop # "fuel"

Candidates ==
  {Renumber(p) : p \in {p \in ProgsUpTo(MaxSize, MaxDepth, Atoms, Loops, Whiles) :
                          HasRow(p) /\ NoCounterLet(p, "")}}

\* TLC builds the initial states on one thread; for the larger bounds the programs are split into NShards classes by
\* a structural weight and one TLC process explores each class
RECURSIVE Weight(_)
Weight(stmts) ==
  IF stmts = <<>> THEN 0
  ELSE LET s == stmts[1]
           w == CASE s.k = "row" -> 1 + Len(s.entries)
                  [] s.k = "let" -> 5
                  [] s.k = "reset" -> 7
                  [] s.k = "loop" -> 11 + 3 * Weight(s.body)
                  [] s.k = "while" -> 13 + 3 * Weight(s.body)
       IN  (w + 2 * Weight(Tail(stmts))) % 9973

VARIABLES prog, it, hist, calls, phase
vars == <<prog, it, hist, calls, phase>>

Init ==
  /\ prog \in {p \in Candidates : Weight(p) % NShards = Shard /\ Terminating(p)}
  /\ LET fin == CtorFinish(Ct(prog), Answer(0))
     IN  /\ fin.res = "ok"
         /\ it = fin.it
  /\ hist = <<>>
  /\ calls = <<CtorCall(Ct(prog))>>
  /\ phase = "idle"

StripCh(inputs) == [k \in DOMAIN inputs |-> [s |-> inputs[k].s, v |-> inputs[k].v]]

Next ==
  /\ phase = "idle"
  /\ Len(hist) < MaxRows
  /\ \E c \in {NextCall(Ct(prog), it, RS, it.rpos)} :
       IF c.k = "none"
       THEN /\ hist' = Append(hist, [k |-> "none", nc |-> 0])
            /\ phase' = "done" /\ it' = c.it /\ UNCHANGED <<prog, calls>>
       ELSE IF c.k = "err"
       THEN /\ hist' = Append(hist, [k |-> "err", class |-> "runtime", id |-> 0, nc |-> 0])
            /\ phase' = "done" /\ it' = c.it /\ UNCHANGED <<prog, calls>>
       ELSE \E ret \in {NextReturn(Ct(prog), c.it, c.row, Answer(Len(calls)), RS, c.pos)} :
            /\ calls' = Append(calls, [kind |-> c.call.kind, inputs |-> StripCh(c.call.inputs)])
            /\ it' = [ret.it EXCEPT !.rpos = ret.pos]
            /\ hist' = Append(hist,
                 IF ret.item.k = "row"
                 THEN [k |-> "row", line |-> ret.item.line, inputs |-> StripCh(ret.item.inputs),
                       outputs |-> ret.item.outputs, vars |-> Vars(ret.it), nc |-> 1]
                 ELSE [k |-> "err", class |-> ret.item.class, id |-> ret.item.id, nc |-> 1])
            /\ phase' = IF ret.item.k = "row" THEN "idle" ELSE "done"
            /\ UNCHANGED prog

Spec == Init /\ [][Next]_vars

-----------------------------------------------------------------------------
\* Level A run for the items produced so far
A == Run(Ct(prog), Script(Len(calls)), RS, Len(hist), Fuel)

\* hist items additionally carry nc, the number of driver calls of that step (for the replay)
NoNc(h) == [k \in DOMAIN h |-> [f \in (DOMAIN h[k]) \ {"nc"} |-> h[k][f]]]
Refines == A.items = NoNc(hist)
CallsAgree == A.calls = [k \in DOMAIN calls |-> IF k = 1 THEN [kind |-> "read", inputs |-> StripCh(calls[1].inputs)] ELSE calls[k]]

\* one variable frame per active loop; between calls the innermost block is in state Iterate
FrameDiscipline ==
  phase = "idle" =>
     /\ Top(it).st = "Iterate"
     /\ \A k \in 1..(Len(it.ctl) - 1) : it.ctl[k].st \in {"IterateInner", "WhileIterateInner"}
     /\ FM_Depth(it.env) = Cardinality({k \in 1..(Len(it.ctl) - 1) : it.ctl[k].st = "IterateInner"})

\* device outputs never appear in vars(); (covered by Refines: the items carry the view)
VarsAreVars ==
  \A k \in DOMAIN hist : hist[k].k = "row" =>
     \A pr \in hist[k].vars : pr[1] \in {"a", "b", "i", "n"}

\* behaviours for the replay direction (one line per terminal state)
Done == phase = "done" \/ Len(hist) >= MaxRows
PrintBehaviour ==
  (EmitReplay /\ Done) =>
     PrintT(<<"REPLAY", ToJson([header |-> Header, signals |-> Signals, prog |-> prog, own_write |-> TRUE,
                                 script |-> Script(Len(calls)), calls |-> calls, items |-> hist])>>)
=============================================================================
