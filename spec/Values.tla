------------------------------- MODULE Values -------------------------------
(***************************************************************************)
(* The three value classes of the crate as tagged records (TLC refuses to  *)
(* compare a tuple with a string, so every value is a record with tag t):  *)
(*   Num(w)  a driven value, w a Word64 word                               *)
(*   VZ      high impedance                                                *)
(*   VX      unknown (output) / don't care (expected)                      *)
(* Check / IsChecked / Failing are the verdict rules of property C03.      *)
(***************************************************************************)
EXTENDS Word64

Num(w) == [t |-> "n", w |-> w]
VZ == [t |-> "Z"]
VX == [t |-> "X"]

IsNum(v) == v.t = "n"
IsValue(v) == \/ v = VZ \/ v = VX \/ (v.t = "n" /\ DOMAIN v = {"t", "w"} /\ IsWord(v.w))

\* does output value `out` satisfy expected value `exp` ?
Check(exp, out) ==
  \/ exp.t = "X"
  \/ exp.t = "Z" /\ out.t = "Z"
  \/ exp.t = "n" /\ out.t = "n" /\ exp.w = out.w

IsChecked(exp) == exp.t # "X"

\* truncation to a signal width applies to numbers only (C07)
TruncV(v, bits) == IF v.t = "n" THEN Num(WTrunc(v.w, bits)) ELSE v
=============================================================================
