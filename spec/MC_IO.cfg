SPECIFICATION Spec
CONSTANTS
  MaxRows = 4
  QVals <- QSmall
  RVals <- RSmall
  WithFaults = FALSE
  EmitReplay = FALSE
INVARIANTS Refines Protocol Attribution Fresh CtorRule Virtual ErrorIdentity DeviationIsError PrintBehaviour
CHECK_DEADLOCK FALSE
