------------------------------- MODULE Parser -------------------------------
(***************************************************************************)
(* Level B: the recursive-descent parser, one operator per function of the *)
(* code (get / peek / expect, parse_number, parse_factor, parse_expr with  *)
(* the right-spine insertion of BinOpTree.add, parse_data_row,             *)
(* parse_stmt_block with its end_token and post-statement check, the       *)
(* header phase, finish).  Properties C09, C12, C19 and the syntax half of *)
(* C08 are statements about it.                                            *)
(*                                                                         *)
(* Input: the token stream.  A token is [k, s, e, txt, cs]: kind (the      *)
(* names of the code's TokenKind), byte span, text (identifiers and header *)
(* names) and code points (integer literals).  The stream ends with Eof.   *)
(*                                                                         *)
(* Parser state ps: pos (next token), line (1-based current line), vars    *)
(* (scoped set of variable names, a FramedMap), virt / expIn / reads (the  *)
(* declarations, the clock columns and the device reads, each in order of  *)
(* first occurrence, with spans).                                          *)
(*                                                                         *)
(* Results are [ok |-> TRUE, ps, v] or [ok |-> FALSE, err, at] with `at` a *)
(* sequence of byte spans; err = "PANIC" marks a state in which the code   *)
(* would panic (peek after Eof, index out of bounds, todo!/unreachable!):  *)
(* NoPanic says it is never reached.                                       *)
(***************************************************************************)
EXTENDS Lexer, FramedMap, TLC

Fail(err, at) == [ok |-> FALSE, err |-> err, at |-> at]
Good(ps, v) == [ok |-> TRUE, ps |-> ps, v |-> v]
Span(t) == <<t.s, t.e>>

IntKinds == {"DecInt", "HexInt", "BinInt", "OctInt"}
UnaryKinds == {"Minus", "LogicalNot", "BinaryNot"}
BinKinds == {"Plus", "Minus", "Times", "Divide", "Reminder", "Xor", "And", "Or", "ShiftLeft", "ShiftRight",
             "Equal", "NotEqual", "LessThanOrEqual", "GreaterThanOrEqual", "LessThan", "GreaterThan"}

OpText(k) ==
  CASE k = "Plus" -> "+" [] k = "Minus" -> "-" [] k = "Times" -> "*" [] k = "Divide" -> "/"
    [] k = "Reminder" -> "%" [] k = "Xor" -> "^" [] k = "And" -> "&" [] k = "Or" -> "|"
    [] k = "ShiftLeft" -> "<<" [] k = "ShiftRight" -> ">>" [] k = "Equal" -> "=" [] k = "NotEqual" -> "!="
    [] k = "LessThanOrEqual" -> "<=" [] k = "GreaterThanOrEqual" -> ">=" [] k = "LessThan" -> "<"
    [] k = "GreaterThan" -> ">" [] k = "LogicalNot" -> "!" [] k = "BinaryNot" -> "~"

\* the precedence table of the code (1 binds tightest)
Prec(op) ==
  CASE op \in {"=", "!="} -> 8
    [] op \in {">", "<", ">=", "<="} -> 7
    [] op = "|" -> 6
    [] op = "^" -> 5
    [] op = "&" -> 4
    [] op \in {"<<", ">>"} -> 3
    [] op \in {"+", "-"} -> 2
    [] op \in {"*", "/", "%"} -> 1

Arity(name) == CASE name = "random" -> 1 [] name = "ite" -> 3 [] name = "signExt" -> 2 [] OTHER -> -1

-----------------------------------------------------------------------------
\* get / peek / expect.  T is the token sequence, endpos the byte length of the input.
PeekK(T, ps) == IF ps.pos <= Len(T) THEN T[ps.pos].k ELSE "PANIC"
PeekTok(T, ps) == T[ps.pos]

Get(T, endpos, ps) ==
  IF ps.pos > Len(T) THEN Fail("UnexpectedEof", << <<endpos, endpos>> >>)
  ELSE LET t == T[ps.pos]
       IN  Good([ps EXCEPT !.pos = @ + 1, !.line = IF t.k = "Eol" THEN @ + 1 ELSE @], t)

Expect(T, endpos, ps, kind) ==
  LET g == Get(T, endpos, ps)
  IN  IF ~g.ok THEN g
      ELSE IF g.v.k # kind THEN Fail("NotExpectedToken", <<Span(g.v)>>)
      ELSE g

PanicIfEnd(T, ps, r) == IF ps.pos > Len(T) THEN Fail("PANIC", <<>>) ELSE r

-----------------------------------------------------------------------------
\* expressions
ParseNumber(T, endpos, ps) ==
  LET g == Get(T, endpos, ps)
  IN  IF ~g.ok THEN g
      ELSE IF g.v.k \notin IntKinds THEN Fail("ExpectedNumber", <<Span(g.v)>>)
      ELSE LET lv == LitValue(g.v.k, g.v.cs)
           IN  IF ~lv.ok THEN Fail("NumberParseError", <<Span(g.v)>>)
               ELSE Good(g.ps, lv.w)

\* BinOpTree: [t |-> "atom", e] | [t |-> "bin", op, l, r]; add() descends the right spine
RECURSIVE TreeAdd(_, _, _)
TreeAdd(tree, op, e) ==
  IF tree.t = "bin" /\ Prec(op) < Prec(tree.op)
  THEN [tree EXCEPT !.r = TreeAdd(tree.r, op, e)]
  ELSE [t |-> "bin", op |-> op, l |-> tree, r |-> [t |-> "atom", e |-> e]]

RECURSIVE TreeExpr(_)
TreeExpr(tree) ==
  IF tree.t = "atom" THEN tree.e
  ELSE [k |-> "bin", op |-> tree.op, l |-> TreeExpr(tree.l), r |-> TreeExpr(tree.r)]

NoteRead(ps, name, span) ==
  IF FM_Get(ps.vars, name).found \/ \E j \in DOMAIN ps.reads : ps.reads[j].name = name THEN ps
  ELSE [ps EXCEPT !.reads = Append(@, [name |-> name, at |-> span])]

RECURSIVE ParseExpr(_, _, _), ParseFactor(_, _, _), ExprRest(_, _, _, _), Args(_, _, _, _)

ParseFactor(T, endpos, ps) ==
  LET k == PeekK(T, ps)
  IN
  IF k = "PANIC" THEN Fail("PANIC", <<>>)
  ELSE IF k \in IntKinds THEN
       LET n == ParseNumber(T, endpos, ps)
       IN  IF ~n.ok THEN n ELSE Good(n.ps, [k |-> "num", v |-> n.v])
  ELSE IF k = "Ident" THEN
       LET g == Get(T, endpos, ps)
           name == g.v.txt
       IN  IF PeekK(T, g.ps) = "PANIC" THEN Fail("PANIC", <<>>)
           ELSE IF PeekK(T, g.ps) = "LParen" THEN
                IF Arity(name) = -1 THEN Fail("FunctionNotFound", <<Span(g.v)>>)
                ELSE LET a == Args(T, endpos, g.ps, <<>>)
                     IN  IF ~a.ok THEN a
                         ELSE LET rp == Expect(T, endpos, a.ps, "RParen")
                              IN  IF ~rp.ok THEN rp
                                  ELSE IF Len(a.v) # Arity(name)
                                       THEN PanicIfEnd(T, rp.ps, Fail("WrongNumberOfArguments",
                                               << <<g.v.s, IF rp.ps.pos <= Len(T) THEN T[rp.ps.pos].s ELSE endpos>> >>))
                                       ELSE Good(rp.ps, [k |-> "fn", name |-> name, args |-> a.v])
           ELSE Good(NoteRead(g.ps, name, Span(g.v)), [k |-> "id", name |-> name])
  ELSE IF k \in UnaryKinds THEN
       LET g == Get(T, endpos, ps)
           f == ParseFactor(T, endpos, g.ps)
       IN  IF ~f.ok THEN f ELSE Good(f.ps, [k |-> "un", op |-> OpText(k), e |-> f.v])
  ELSE IF k = "LParen" THEN
       LET g == Get(T, endpos, ps)
           e == ParseExpr(T, endpos, g.ps)
       IN  IF ~e.ok THEN e
           ELSE LET rp == Expect(T, endpos, e.ps, "RParen")
                IN  IF ~rp.ok THEN rp ELSE Good(rp.ps, e.v)
  ELSE LET g == Get(T, endpos, ps) IN IF ~g.ok THEN g ELSE Fail("UnexpectedToken", <<Span(g.v)>>)

\* the argument list: skip the '(' or ',', parse an expression, continue while at ','
Args(T, endpos, ps, acc) ==
  LET g == Get(T, endpos, ps)                     \* skip()
      e == ParseExpr(T, endpos, g.ps)
  IN  IF ~g.ok THEN Fail("PANIC", <<>>)
      ELSE IF ~e.ok THEN e
      ELSE IF PeekK(T, e.ps) = "PANIC" THEN Fail("PANIC", <<>>)
      ELSE IF PeekK(T, e.ps) = "Comma" THEN Args(T, endpos, e.ps, Append(acc, e.v))
      ELSE Good(e.ps, Append(acc, e.v))

ExprRest(T, endpos, ps, tree) ==
  LET k == PeekK(T, ps)
  IN  IF k = "PANIC" THEN Fail("PANIC", <<>>)
      ELSE IF k \notin BinKinds THEN Good(ps, TreeExpr(tree))
      ELSE LET g == Get(T, endpos, ps)
               f == ParseFactor(T, endpos, g.ps)
           IN  IF ~f.ok THEN f
               ELSE ExprRest(T, endpos, f.ps, TreeAdd(tree, OpText(k), f.v))

ParseExpr(T, endpos, ps) ==
  LET f == ParseFactor(T, endpos, ps)
  IN  IF ~f.ok THEN f ELSE ExprRest(T, endpos, f.ps, [t |-> "atom", e |-> f.v])

-----------------------------------------------------------------------------
\* data rows.  H is the sequence of header names.
NoteClock(ps, H, col, span) ==
  \* a C beyond the last column is reported as a row of the wrong length, not recorded
  IF col > Len(H) \/ \E j \in DOMAIN ps.expIn : ps.expIn[j].name = H[col] THEN ps
  ELSE [ps EXCEPT !.expIn = Append(@, [name |-> H[col], at |-> span])]

RECURSIVE RowEntries(_, _, _, _, _, _)
RowEntries(T, endpos, H, ps, acc, width) ==
  LET k == PeekK(T, ps)
  IN
  IF k = "PANIC" THEN Fail("PANIC", <<>>)
  ELSE IF k = "LParen" THEN
       LET g == Get(T, endpos, ps)
           e == ParseExpr(T, endpos, g.ps)
       IN  IF ~e.ok THEN e
           ELSE LET rp == Expect(T, endpos, e.ps, "RParen")
                IN  IF ~rp.ok THEN rp
                    ELSE RowEntries(T, endpos, H, rp.ps, Append(acc, [k |-> "expr", e |-> e.v]), width + 1)
  ELSE IF k = "Bits" THEN
       LET g == Get(T, endpos, ps)
           lp == Expect(T, endpos, g.ps, "LParen")
       IN  IF ~lp.ok THEN lp
           ELSE IF PeekK(T, lp.ps) = "PANIC" THEN Fail("PANIC", <<>>)
           ELSE LET at == Span(PeekTok(T, lp.ps))
                    n == ParseNumber(T, endpos, lp.ps)
                IN  IF ~n.ok THEN n
                    ELSE IF WLt(WFromNat(64), n.v) THEN Fail("TooManyBits", <<at>>)
                    ELSE LET cm == Expect(T, endpos, n.ps, "Comma")
                         IN  IF ~cm.ok THEN cm
                             ELSE LET e == ParseExpr(T, endpos, cm.ps)
                                  IN  IF ~e.ok THEN e
                                      ELSE LET rp == Expect(T, endpos, e.ps, "RParen")
                                           IN  IF ~rp.ok THEN rp
                                               ELSE RowEntries(T, endpos, H, rp.ps,
                                                      Append(acc, [k |-> "bits", n |-> n.v[4], e |-> e.v]),
                                                      width + n.v[4])
  ELSE IF k = "Ident" THEN
       LET g == Get(T, endpos, ps)
           x == g.v.txt
       IN  IF x \in {"c", "C"}
           THEN RowEntries(T, endpos, H, NoteClock(g.ps, H, width + 1, Span(g.v)), Append(acc, [k |-> "C"]), width + 1)
           ELSE IF x \in {"x", "X"} THEN RowEntries(T, endpos, H, g.ps, Append(acc, [k |-> "X"]), width + 1)
           ELSE IF x \in {"z", "Z"} THEN RowEntries(T, endpos, H, g.ps, Append(acc, [k |-> "Z"]), width + 1)
           ELSE Fail("ExpectedCXZ", <<Span(g.v)>>)
  ELSE IF k \in IntKinds THEN
       LET n == ParseNumber(T, endpos, ps)
       IN  IF ~n.ok THEN n
           ELSE RowEntries(T, endpos, H, n.ps, Append(acc, [k |-> "num", v |-> n.v]), width + 1)
  ELSE IF k \in {"Eol", "Eof"} THEN Good(ps, [entries |-> acc, width |-> width])
  ELSE LET g == Get(T, endpos, ps) IN IF ~g.ok THEN g ELSE Fail("UnexpectedToken", <<Span(g.v)>>)

ParseDataRow(T, endpos, H, ps) ==
  IF PeekK(T, ps) = "PANIC" THEN Fail("PANIC", <<>>)
  ELSE LET start == PeekTok(T, ps).s
           r == RowEntries(T, endpos, H, ps, <<>>, 0)
       IN  IF ~r.ok THEN r
           ELSE IF r.v.width # Len(H)
                THEN Fail("DataRowWithWrongNumberOfSignals", << <<start, PeekTok(T, r.ps).s>> >>)
                ELSE Good(r.ps, r.v.entries)

-----------------------------------------------------------------------------
\* statements
VarsPush(ps) == [ps EXCEPT !.vars = FM_Push(@)]
VarsPop(ps) == [ps EXCEPT !.vars = FM_Pop(@)]
VarsInsert(ps, name) == [ps EXCEPT !.vars = FM_Set(@, name, TRUE)]

RowStartKinds == {"LParen", "Bits", "Ident"} \cup IntKinds
Unsupported == {"Program", "Init", "Memory", "Def", "Call"}

RECURSIVE ParseBlock(_, _, _, _, _, _)
\* endTok: "" at top level, "Loop" / "While" inside a block.  acc: the statements so far.
\* Result value: the block's statements.

\* after a statement: at Eof the block must be the top level; otherwise a line break is required
AfterStmt(T, endpos, H, ps, endTok, acc) ==
  LET k == PeekK(T, ps)
  IN  IF k = "PANIC" THEN Fail("PANIC", <<>>)
      ELSE IF k = "Eof"
           THEN IF endTok # "" THEN Fail("UnexpectedEof", <<Span(PeekTok(T, ps))>>) ELSE Good(ps, acc)
      ELSE IF k = "Eol" THEN ParseBlock(T, endpos, H, Get(T, endpos, ps).ps, endTok, acc)
      ELSE Fail("ExpectedNewLine", <<Span(PeekTok(T, ps))>>)

ParseBlock(T, endpos, H, ps, endTok, acc) ==
  LET k == PeekK(T, ps)
  IN
  IF k = "PANIC" THEN Fail("PANIC", <<>>)
  ELSE IF k \in RowStartKinds THEN
       LET r == ParseDataRow(T, endpos, H, ps)
       IN  IF ~r.ok THEN r
           ELSE AfterStmt(T, endpos, H, r.ps, endTok,
                          Append(acc, [k |-> "row", line |-> r.ps.line, entries |-> r.v]))
  ELSE IF k = "Loop" THEN
       LET g == Get(T, endpos, ps)
           lp == Expect(T, endpos, g.ps, "LParen")
       IN  IF ~lp.ok THEN lp
           ELSE LET id == Expect(T, endpos, lp.ps, "Ident")
                IN  IF ~id.ok THEN id
                    ELSE LET cm == Expect(T, endpos, id.ps, "Comma")
                         IN  IF ~cm.ok THEN cm
                             ELSE LET mx == ParseExpr(T, endpos, cm.ps)
                                  IN  IF ~mx.ok THEN mx
                                      ELSE LET rp == Expect(T, endpos, mx.ps, "RParen")
                                           IN  IF ~rp.ok THEN rp
                                               ELSE LET nl == Expect(T, endpos, rp.ps, "Eol")
                                                    IN  IF ~nl.ok THEN nl
                                                        ELSE LET b == ParseBlock(T, endpos, H,
                                                                        VarsInsert(VarsPush(nl.ps), id.v.txt), "Loop", <<>>)
                                                             IN  IF ~b.ok THEN b
                                                                 ELSE AfterStmt(T, endpos, H, VarsPop(b.ps), endTok,
                                                                        Append(acc, [k |-> "loop", var |-> id.v.txt,
                                                                                     max |-> mx.v, body |-> b.v]))
  ELSE IF k = "Repeat" THEN
       LET g == Get(T, endpos, ps)
           lp == Expect(T, endpos, g.ps, "LParen")
       IN  IF ~lp.ok THEN lp
           ELSE LET mx == ParseExpr(T, endpos, lp.ps)
                IN  IF ~mx.ok THEN mx
                    ELSE LET rp == Expect(T, endpos, mx.ps, "RParen")
                         IN  IF ~rp.ok THEN rp
                             ELSE LET r == ParseDataRow(T, endpos, H, VarsInsert(VarsPush(rp.ps), "n"))
                                  IN  IF ~r.ok THEN r
                                      ELSE AfterStmt(T, endpos, H, VarsPop(r.ps), endTok,
                                             Append(acc, [k |-> "loop", var |-> "n", max |-> mx.v,
                                                          body |-> <<[k |-> "row", line |-> r.ps.line, entries |-> r.v]>>]))
  ELSE IF k = "Let" THEN
       LET g == Get(T, endpos, ps)
           id == Expect(T, endpos, g.ps, "Ident")
       IN  IF ~id.ok THEN id
           ELSE LET eq == Expect(T, endpos, id.ps, "Equal")
                IN  IF ~eq.ok THEN eq
                    ELSE LET e == ParseExpr(T, endpos, eq.ps)
                         IN  IF ~e.ok THEN e
                             ELSE LET sm == Expect(T, endpos, e.ps, "Semi")
                                  IN  IF ~sm.ok THEN sm
                                      ELSE AfterStmt(T, endpos, H, VarsInsert(sm.ps, id.v.txt), endTok,
                                             Append(acc, [k |-> "let", name |-> id.v.txt, e |-> e.v]))
  ELSE IF k = "ResetRandom" THEN
       LET g == Get(T, endpos, ps)
           sm == Expect(T, endpos, g.ps, "Semi")
       IN  IF ~sm.ok THEN sm ELSE AfterStmt(T, endpos, H, sm.ps, endTok, Append(acc, [k |-> "reset"]))
  ELSE IF k = "While" THEN
       LET g == Get(T, endpos, ps)
           lp == Expect(T, endpos, g.ps, "LParen")
       IN  IF ~lp.ok THEN lp
           ELSE LET c == ParseExpr(T, endpos, lp.ps)
                IN  IF ~c.ok THEN c
                    ELSE LET rp == Expect(T, endpos, c.ps, "RParen")
                         IN  IF ~rp.ok THEN rp
                             ELSE LET nl == Expect(T, endpos, rp.ps, "Eol")
                                  IN  IF ~nl.ok THEN nl
                                      ELSE LET b == ParseBlock(T, endpos, H, nl.ps, "While", <<>>)
                                           IN  IF ~b.ok THEN b
                                               ELSE AfterStmt(T, endpos, H, b.ps, endTok,
                                                      Append(acc, [k |-> "while", cond |-> c.v, body |-> b.v]))
  ELSE IF k = "Declare" THEN
       LET start == PeekTok(T, ps).s
           g == Get(T, endpos, ps)
           id == Expect(T, endpos, g.ps, "Ident")
       IN  IF ~id.ok THEN id
           ELSE LET eq == Expect(T, endpos, id.ps, "Equal")
                IN  IF ~eq.ok THEN eq
                    ELSE \* the expression is parsed with the set of known variables temporarily emptied
                         LET e == ParseExpr(T, endpos, [eq.ps EXCEPT !.vars = FM_New])
                         IN  IF ~e.ok THEN e
                             ELSE LET sm == Expect(T, endpos, [e.ps EXCEPT !.vars = eq.ps.vars], "Semi")
                                  IN  IF ~sm.ok THEN sm
                                      ELSE IF PeekK(T, sm.ps) = "PANIC" THEN Fail("PANIC", <<>>)
                                      ELSE LET span == <<start, PeekTok(T, sm.ps).s>>
                                               dup == {j \in DOMAIN sm.ps.virt : sm.ps.virt[j].name = id.v.txt}
                                           IN  IF dup # {}
                                               THEN Fail("DuplicateVirtualSignal",
                                                         <<sm.ps.virt[CHOOSE j \in dup : TRUE].at, span>>)
                                               ELSE AfterStmt(T, endpos, H,
                                                      [sm.ps EXCEPT !.virt = Append(@, [name |-> id.v.txt, e |-> e.v, at |-> span])],
                                                      endTok, acc)
  ELSE IF k \in Unsupported THEN
       LET g == Get(T, endpos, ps) IN Fail("UnsupportedStatement", <<Span(g.v)>>)
  ELSE IF k = "End" THEN
       IF endTok # ""
       THEN LET g == Get(T, endpos, ps)
                e == Expect(T, endpos, g.ps, endTok)
            IN  IF ~e.ok THEN e ELSE Good(e.ps, acc)           \* leaves the block without the post-statement check
       ELSE LET g == Get(T, endpos, ps) IN Fail("UnexpectedEndAtTopLevel", <<Span(g.v)>>)
  ELSE IF k = "Eof" THEN
       LET g == Get(T, endpos, ps)
       IN  IF endTok # "" THEN Fail("UnexpectedEof", <<Span(g.v)>>) ELSE Good(g.ps, acc)
  ELSE IF k = "Eol" THEN AfterStmt(T, endpos, H, ps, endTok, acc)
  ELSE LET g == Get(T, endpos, ps) IN Fail("UnknownToken", <<Span(g.v)>>)

-----------------------------------------------------------------------------
\* the header phase: names until the first line break that follows a name; the line counter starts at 1
RECURSIVE HeaderNames(_, _, _, _)
HeaderNames(HT, j, line, acc) ==
  \* HT: the header tokens (SignalName / HeaderEol); result [ok, names, spans, line, err, at]
  IF j > Len(HT) THEN [ok |-> FALSE, err |-> "UnexpectedEof", at |-> <<>>]
  ELSE IF HT[j].k = "HeaderEol"
       THEN IF acc.names # <<>> THEN [ok |-> TRUE, names |-> acc.names, spans |-> acc.spans, line |-> line + 1]
            ELSE HeaderNames(HT, j + 1, line + 1, acc)
  ELSE LET dup == {i \in DOMAIN acc.names : acc.names[i] = HT[j].txt}
       IN  IF dup # {} THEN [ok |-> FALSE, err |-> "DuplicateSignal",
                             at |-> <<acc.spans[CHOOSE i \in dup : TRUE], Span(HT[j])>>]
           ELSE HeaderNames(HT, j + 1, line, [names |-> Append(acc.names, HT[j].txt),
                                               spans |-> Append(acc.spans, Span(HT[j]))])

\* The whole parse.  HT: header tokens, T: body tokens (ending with Eof), endpos: byte length of the text.
\* Result: [ok |-> TRUE, header, stmts, virtuals, expected_inputs, read_outputs] or [ok |-> FALSE, err, at]
ParseTest(HT, T, endpos) ==
  LET h == HeaderNames(HT, 1, 1, [names |-> <<>>, spans |-> <<>>])
  IN  IF ~h.ok THEN [ok |-> FALSE, err |-> h.err,
                     at |-> IF h.err = "UnexpectedEof" THEN << <<endpos, endpos>> >> ELSE h.at]
      ELSE LET ps0 == [pos |-> 1, line |-> h.line, vars |-> FM_New, virt |-> <<>>, expIn |-> <<>>, reads |-> <<>>]
               b == ParseBlock(T, endpos, h.names, ps0, "", <<>>)
           IN  IF ~b.ok THEN [ok |-> FALSE, err |-> b.err, at |-> b.at]
               ELSE [ok |-> TRUE, header |-> h.names, stmts |-> b.v,
                     virtuals |-> [j \in DOMAIN b.ps.virt |-> [name |-> b.ps.virt[j].name, e |-> b.ps.virt[j].e]],
                     expected_inputs |-> [j \in DOMAIN b.ps.expIn |-> b.ps.expIn[j].name],
                     read_outputs |-> [j \in DOMAIN b.ps.reads |-> b.ps.reads[j].name]]

\* C09: every location of an error lies within the text
SpansInRange(res, endpos) ==
  res.ok \/ \A j \in DOMAIN res.at : 0 <= res.at[j][1] /\ res.at[j][1] <= res.at[j][2] /\ res.at[j][2] <= endpos
NoPanic(res) == res.ok \/ res.err # "PANIC"
=============================================================================
