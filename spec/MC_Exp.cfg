SPECIFICATION Spec
CONSTANTS
  InLoop = TRUE
  EmitReplay = FALSE
INVARIANTS ExpansionAgrees Pattern PrintBehaviour
CHECK_DEADLOCK FALSE
