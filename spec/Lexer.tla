-------------------------------- MODULE Lexer --------------------------------
(***************************************************************************)
(* The token definitions of the test language, character level             *)
(* (properties C09, C20, the literal syntax of C08).                       *)
(*                                                                         *)
(* A text is a sequence of Unicode code points.  Lexing is maximal munch:  *)
(* at each position the token is the kind whose language has the longest   *)
(* prefix there; a fixed token ("end", "<<") beats the identifier pattern  *)
(* on equal length; blanks ([ \t\r\f]+) and comments (#...) are skipped;   *)
(* a character that starts no token is an Error token of that one          *)
(* character.  Spans are byte offsets in the UTF-8 encoding (start         *)
(* inclusive, end exclusive), so they always lie on character boundaries.  *)
(*                                                                         *)
(* The header line is lexed differently: maximal runs of non-blank         *)
(* characters are signal names, whatever they contain.                     *)
(***************************************************************************)
EXTENDS Word64

Literals ==
  << [k |-> "Comma", cs |-> <<44>>],
     [k |-> "Semi", cs |-> <<59>>],
     [k |-> "Plus", cs |-> <<43>>],
     [k |-> "Minus", cs |-> <<45>>],
     [k |-> "Times", cs |-> <<42>>],
     [k |-> "Divide", cs |-> <<47>>],
     [k |-> "Reminder", cs |-> <<37>>],
     [k |-> "LogicalNot", cs |-> <<33>>],
     [k |-> "BinaryNot", cs |-> <<126>>],
     [k |-> "Xor", cs |-> <<94>>],
     [k |-> "And", cs |-> <<38>>],
     [k |-> "Or", cs |-> <<124>>],
     [k |-> "ShiftLeft", cs |-> <<60, 60>>],
     [k |-> "ShiftRight", cs |-> <<62, 62>>],
     [k |-> "Equal", cs |-> <<61>>],
     [k |-> "NotEqual", cs |-> <<33, 61>>],
     [k |-> "LessThanOrEqual", cs |-> <<60, 61>>],
     [k |-> "GreaterThanOrEqual", cs |-> <<62, 61>>],
     [k |-> "LessThan", cs |-> <<60>>],
     [k |-> "GreaterThan", cs |-> <<62>>],
     [k |-> "LParen", cs |-> <<40>>],
     [k |-> "RParen", cs |-> <<41>>],
     [k |-> "End", cs |-> <<101, 110, 100>>],
     [k |-> "Loop", cs |-> <<108, 111, 111, 112>>],
     [k |-> "Repeat", cs |-> <<114, 101, 112, 101, 97, 116>>],
     [k |-> "Bits", cs |-> <<98, 105, 116, 115>>],
     [k |-> "Let", cs |-> <<108, 101, 116>>],
     [k |-> "ResetRandom", cs |-> <<114, 101, 115, 101, 116, 82, 97, 110, 100, 111, 109>>],
     [k |-> "While", cs |-> <<119, 104, 105, 108, 101>>],
     [k |-> "Declare", cs |-> <<100, 101, 99, 108, 97, 114, 101>>],
     [k |-> "Program", cs |-> <<112, 114, 111, 103, 114, 97, 109>>],
     [k |-> "Init", cs |-> <<105, 110, 105, 116>>],
     [k |-> "Memory", cs |-> <<109, 101, 109, 111, 114, 121>>],
     [k |-> "Def", cs |-> <<100, 101, 102>>],
     [k |-> "Call", cs |-> <<99, 97, 108, 108>>] >>

IsBlank(c) == c \in {32, 9, 13, 12}                  \* space, tab, CR, FF
IsLF(c) == c = 10
IsDigit(c) == c \in 48..57
IsOct(c) == c \in 48..55
IsBin(c) == c \in 48..49
IsHex(c) == c \in 48..57 \/ c \in 65..70 \/ c \in 97..102
IsIdStart(c) == c \in 65..90 \/ c \in 97..122 \/ c = 95
\* the pattern uses \d, which for a Unicode-aware regex is any decimal digit; the decimal digits of the
\* scripts the generators use are listed (Arabic-Indic, Devanagari, fullwidth)
IsUniDigit(c) == c \in 1632..1641 \/ c \in 2406..2415 \/ c \in 65296..65305
IsIdCont(c) == IsIdStart(c) \/ IsDigit(c) \/ IsUniDigit(c)
\* code points whose UTF-8 encoding starts with a lead byte that also starts some Unicode decimal digit
\* (D9, DB, DF, E0, E1, EA, EF, F0) and which are not themselves modelled as digits
SharesLeadWithDigit(c) ==
  /\ ~IsUniDigit(c)
  /\ \/ c \in 1600..1663 \/ c \in 1728..1791 \/ c \in 1984..2047 \/ c \in 2048..8191
     \/ c \in 40960..45055 \/ c \in 61440..65535 \/ c \in 65536..262143

Utf8Len(c) == IF c < 128 THEN 1 ELSE IF c < 2048 THEN 2 ELSE IF c < 65536 THEN 3 ELSE 4

\* number of consecutive code points from i on that satisfy P
InClass(cls, c) ==
  CASE cls = "blank" -> IsBlank(c)
    [] cls = "digit" -> IsDigit(c)
    [] cls = "oct" -> IsOct(c)
    [] cls = "bin" -> IsBin(c)
    [] cls = "hex" -> IsHex(c)
    [] cls = "idcont" -> IsIdCont(c)
    [] cls = "notlf" -> c # 10
    [] cls = "name" -> ~IsBlank(c) /\ ~IsLF(c)

\* The lexer of one text.  All auxiliary operators are local to it and refer to the text `cs` directly
\* (TLC passes operator arguments lazily; threading `cs` through deep recursions is very slow).
\* withHeader: "test" lex a header line first (a complete test), "body" only body tokens, "agree" / "decl" see below.
\* Result: [ok, toks]; ok = FALSE when the text ends before the header's line break.
\* Tokens are [k, s, e, i, n]: kind, byte span, code point index and count of the token's text.
LexAll(cs, withHeader) ==
  LET N == Len(cs)
      At(i) == IF i <= N THEN cs[i] ELSE -1
      \* number of consecutive code points from i on that are in class cls
      RECURSIVE Run(_, _)
      Run(i, cls) == IF i <= N /\ InClass(cls, cs[i]) THEN 1 + Run(i + 1, cls) ELSE 0
      RECURSIVE Bytes(_, _)
      Bytes(i, n) == IF n = 0 THEN 0 ELSE Utf8Len(cs[i]) + Bytes(i + 1, n - 1)
      \* length of the longest prefix at i in the language of each pattern kind (0: none)
      LitLen(i, lit) == IF i + Len(lit) - 1 <= N /\ \A j \in DOMAIN lit : cs[i + j - 1] = lit[j] THEN Len(lit) ELSE 0
      IdentLen(i) == IF IsIdStart(At(i)) THEN 1 + Run(i + 1, "idcont") ELSE 0
      DecLen(i) == IF At(i) \in 49..57 THEN 1 + Run(i + 1, "digit") ELSE 0
      HexLen(i) == IF At(i) = 48 /\ At(i + 1) \in {120, 88} /\ IsHex(At(i + 2)) THEN 2 + Run(i + 2, "hex") ELSE 0
      BinLen(i) == IF At(i) = 48 /\ At(i + 1) \in {98, 66} /\ IsBin(At(i + 2)) THEN 2 + Run(i + 2, "bin") ELSE 0
      OctLen(i) == IF At(i) = 48 THEN 1 + Run(i + 1, "oct") ELSE 0
      CommentLen(i) == IF At(i) = 35 THEN 1 + Run(i + 1, "notlf") ELSE 0
      \* all candidates at position i, as <<length, priority, kind>>; a fixed token wins on equal length
      Candidates(i) ==
        {<<LitLen(i, Literals[n].cs), 2, Literals[n].k>> : n \in DOMAIN Literals}
        \cup {<<IdentLen(i), 1, "Ident">>, <<DecLen(i), 1, "DecInt">>, <<HexLen(i), 1, "HexInt">>,
              <<BinLen(i), 1, "BinInt">>, <<OctLen(i), 1, "OctInt">>, <<Run(i, "blank"), 1, "WS">>,
              <<CommentLen(i), 1, "Comment">>, <<IF IsLF(At(i)) THEN 1 ELSE 0, 1, "Eol">>}
      BestDecl(i) == LET c == Candidates(i)
                     IN  CHOOSE x \in c : \A y \in c : x[1] > y[1] \/ (x[1] = y[1] /\ x[2] >= y[2])
      \* The same choice computed the way a hand-written scanner does, by dispatching on the first character
      \* (MC_Lexer checks ScanAgrees: Best(i) = BestDecl(i) at every position of every short string).
      LitOfLen(i, n) == {m \in DOMAIN Literals : Len(Literals[m].cs) = n /\ LitLen(i, Literals[m].cs) = n}
      Best(i) ==
        LET c == At(i)
        IN  IF IsBlank(c) THEN <<Run(i, "blank"), 1, "WS">>
            ELSE IF c = 10 THEN <<1, 1, "Eol">>
            ELSE IF c = 35 THEN <<CommentLen(i), 1, "Comment">>
            ELSE IF IsIdStart(c)
                 THEN LET n == IdentLen(i)
                          kw == LitOfLen(i, n)
                      IN  IF kw # {} THEN <<n, 2, Literals[CHOOSE m \in kw : TRUE].k>> ELSE <<n, 1, "Ident">>
            ELSE IF c \in 49..57 THEN <<DecLen(i), 1, "DecInt">>
            ELSE IF c = 48
                 THEN IF HexLen(i) > 0 THEN <<HexLen(i), 1, "HexInt">>
                      ELSE IF BinLen(i) > 0 THEN <<BinLen(i), 1, "BinInt">>
                      ELSE <<OctLen(i), 1, "OctInt">>
            ELSE LET two == LitOfLen(i, 2)
                     one == LitOfLen(i, 1)
                 IN  IF two # {} THEN <<2, 2, Literals[CHOOSE m \in two : TRUE].k>>
                     ELSE IF one # {} THEN <<1, 2, Literals[CHOOSE m \in one : TRUE].k>>
                     ELSE <<0, 1, "Error">>
      \* No token other than the line break itself contains a line break, so the text is lexed line by line.
      \* LexLine: tokens from code point i (byte offset b) up to the next line break or the end; [toks, i, b]
      RECURSIVE LexLine(_, _)
      LexLine(i, b) ==
        IF i > N \/ cs[i] = 10 THEN [toks |-> <<>>, i |-> i, b |-> b]
        ELSE LET best == Best(i)
             IN  IF best[1] = 0
                 THEN LET rest == LexLine(i + 1, b + Utf8Len(cs[i]))
                      IN  [rest EXCEPT !.toks = <<[k |-> "Error", s |-> b, e |-> b + Utf8Len(cs[i]), i |-> i, n |-> 1]>> \o @]
                 ELSE LET nb == Bytes(i, best[1])
                          rest == LexLine(i + best[1], b + nb)
                          \* DEVIATION of the generated scanner (named, not idealised away): a word keyword that is directly
                          \* followed by a character which cannot continue an identifier but whose UTF-8 encoding starts
                          \* with the lead byte of some Unicode decimal digit (the identifier pattern uses \d) comes out as
                          \* an identifier - the scanner has already left the keyword's accepting state when it finds
                          \* that the character does not fit.  The text is rejected either way (an Error token follows).
                          kind == IF best[2] = 2 /\ IsIdStart(cs[i]) /\ SharesLeadWithDigit(At(i + best[1])) THEN "Ident" ELSE best[3]
                      IN  IF best[3] \in {"WS", "Comment"} THEN rest
                          ELSE [rest EXCEPT !.toks = <<[k |-> kind, s |-> b, e |-> b + nb, i |-> i, n |-> best[1]]>> \o @]
      RECURSIVE LexFrom(_, _)
      LexFrom(i, b) ==
        LET ln == LexLine(i, b)
        IN  IF ln.i > N THEN ln.toks \o <<[k |-> "Eof", s |-> ln.b, e |-> ln.b, i |-> ln.i, n |-> 0]>>
            ELSE ln.toks \o <<[k |-> "Eol", s |-> ln.b, e |-> ln.b + 1, i |-> ln.i, n |-> 1]>> \o LexFrom(ln.i + 1, ln.b + 1)
      \* The header: signal names are maximal runs of non-blank characters, whatever they contain.  Lexing
      \* stops after the first line break that follows at least one name: [ok, toks, i, b]
      RECURSIVE HeaderFrom(_, _, _, _)
      HeaderFrom(i, b, seen, acc) ==
        IF i > N THEN [ok |-> FALSE, toks |-> acc, i |-> i, b |-> b]
        ELSE IF IsBlank(cs[i]) THEN HeaderFrom(i + 1, b + 1, seen, acc)
        ELSE IF IsLF(cs[i])
             THEN LET acc1 == Append(acc, [k |-> "HeaderEol", s |-> b, e |-> b + 1, i |-> i, n |-> 1])
                  IN  IF seen THEN [ok |-> TRUE, toks |-> acc1, i |-> i + 1, b |-> b + 1]
                      ELSE HeaderFrom(i + 1, b + 1, seen, acc1)
        ELSE LET n == Run(i, "name")
                 nb == Bytes(i, n)
             IN  HeaderFrom(i + n, b + nb, TRUE, Append(acc, [k |-> "SignalName", s |-> b, e |-> b + nb, i |-> i, n |-> n]))
  IN  IF withHeader = "agree" THEN [ok |-> \A i \in 1..N : Best(i)[1] = BestDecl(i)[1] /\ (Best(i)[1] > 0 => Best(i)[3] = BestDecl(i)[3]), toks |-> <<>>]
      ELSE IF withHeader = "decl" THEN [ok |-> TRUE, toks |-> [i \in 1..N |-> BestDecl(i)]]
      ELSE IF withHeader = "body" THEN [ok |-> TRUE, toks |-> LexFrom(1, 0)]
      ELSE LET h == HeaderFrom(1, 0, FALSE, <<>>)
           IN  IF ~h.ok THEN [ok |-> FALSE, toks |-> h.toks]
               ELSE [ok |-> TRUE, toks |-> h.toks \o LexFrom(h.i, h.b)]

\* the body tokens of a text without a header / the complete token stream of a test, as the verif-hooks
\* token dump lists it
Lex(cs) == LexAll(cs, "body").toks
ScanAgrees(cs) == LexAll(cs, "agree").ok
LexTest(cs) == LexAll(cs, "test")

-----------------------------------------------------------------------------
\* Value of an integer literal given its code points (C08: decimal, 0x hex, 0b binary, leading-zero
\* octal; C12: a literal that does not fit in 64 bits (signed) is an error).
DigitVal(c) == IF c \in 48..57 THEN c - 48 ELSE IF c \in 65..70 THEN c - 55 ELSE c - 87

MaxDiv(r) == CASE r = 2 -> <<16383, 65535, 65535, 65535>>
               [] r = 8 -> <<4095, 65535, 65535, 65535>>
               [] r = 10 -> <<3276, 52428, 52428, 52428>>
               [] r = 16 -> <<2047, 65535, 65535, 65535>>
MaxMod(r) == CASE r = 2 -> 1 [] r = 8 -> 7 [] r = 10 -> 7 [] r = 16 -> 15

RECURSIVE Horner(_, _, _, _)
Horner(ds, j, r, acc) ==            \* acc: [ok, w]
  IF j > Len(ds) \/ ~acc.ok THEN acc
  ELSE LET d == DigitVal(ds[j])
           over == WULt(MaxDiv(r), acc.w) \/ (acc.w = MaxDiv(r) /\ d > MaxMod(r))
       IN  Horner(ds, j + 1, r,
                  IF over THEN [ok |-> FALSE, w |-> W0]
                  ELSE [ok |-> TRUE, w |-> WAdd(WMul(acc.w, WFromNat(r)), WFromNat(d))])

\* kind: "DecInt" | "HexInt" | "BinInt" | "OctInt"; cs: the literal's code points
LitValue(kind, cs) ==
  LET r == CASE kind = "DecInt" -> 10 [] kind = "HexInt" -> 16 [] kind = "BinInt" -> 2 [] kind = "OctInt" -> 8
      ds == IF kind \in {"HexInt", "BinInt"} THEN SubSeq(cs, 3, Len(cs)) ELSE cs
  IN  Horner(ds, 1, r, [ok |-> TRUE, w |-> W0])
=============================================================================
