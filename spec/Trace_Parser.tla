---------------------------- MODULE Trace_Parser ----------------------------
(***************************************************************************)
(* Trace validation for lexing and parsing (C09, C12, C19, C20 and the     *)
(* syntax half of C08).                                                    *)
(*                                                                         *)
(* Each line records one call of the real `ParsedTestCase::from_str`:      *)
(*   cs        the text as code points                                     *)
(*   tokens    the crate's own token stream (verif-hooks), [k, s, e, txt], *)
(*             or `lexed = FALSE` when the header is incomplete            *)
(*   res       "ok" | "err" | "panic"                                      *)
(*   dump      the parsed test (statements with lines, header names,       *)
(*             declarations, clock columns, device reads), when ok         *)
(*   spans_ok / render_ok   harness-side checks of C09 on the real error:  *)
(*             locations in range and on character boundaries; the         *)
(*             diagnostic renders                                          *)
(*   row_lines the printer's ground truth for the rows' lines (valid       *)
(*             generated programs only), group / variant for layout groups *)
(*                                                                         *)
(* The specification lexes cs itself (Lexer), parses its own tokens        *)
(* (Parser, level B) and judges them (Grammar, level A), and compares:     *)
(*   lex.tokens     token kinds and spans                (C09, C20)        *)
(*   panic          the crate panicked                   (C09)             *)
(*   spans          error locations unusable             (C09)             *)
(*   accept.invalid the crate accepts, the grammar rejects (C12)           *)
(*   reject.valid   the crate rejects, the grammar accepts                 *)
(*   verdict        crate and level B disagree                             *)
(*   ast            the parsed statements differ         (C08, C01)        *)
(*   ast.lines      only the row lines differ            (C19)             *)
(*   lines.truth    row lines differ from the printer's truth (C19)        *)
(*   reparse        parsing the same text again gave a different test (C15)*)
(*   layout.tokens / layout.verdict   a layout variant differs from the    *)
(*                  first variant of its group           (C20)             *)
(***************************************************************************)
EXTENDS Grammar, Json, IOUtils, SequencesExt

Rec == ndJsonDeserialize(IOEnv.TRACE)

VARIABLES l, grp
vars == <<l, grp>>

\* grp: the normalised token sequence and verdict of the first variant of the current layout group
NoGrp == [id |-> -1, toks |-> <<>>, ok |-> FALSE, rl |-> <<>>, tl |-> <<>>, ast |-> <<>>]

Init == l = 1 /\ grp = NoGrp

Flag(r, code) == PrintT(<<"DIAG", r.id, l, code>>)

\* the tokens of the specification's own lexing, with the texts the harness cut out of the source
WithText(lx, r) ==
  [j \in DOMAIN lx |->
     [k |-> lx[j].k, s |-> lx[j].s, e |-> lx[j].e,
      txt |-> IF j <= Len(r.tokens) THEN r.tokens[j].txt ELSE "",
      cs |-> IF lx[j].k \in IntKinds THEN SubSeq(r.cs, lx[j].i, lx[j].i + lx[j].n - 1) ELSE <<>>]]

SameTokens(lx, toks) ==
  /\ Len(lx) = Len(toks)
  /\ \A j \in DOMAIN lx : lx[j].k = toks[j].k /\ lx[j].s = toks[j].s /\ lx[j].e = toks[j].e

IsHeaderTok(t) == t.k \in {"SignalName", "HeaderEol"}

\* statements without their row lines
RECURSIVE NoLines(_)
NoLines(stmts) ==
  [j \in DOMAIN stmts |->
     CASE stmts[j].k = "row" -> [stmts[j] EXCEPT !.line = 0]
       [] stmts[j].k \in {"loop", "while"} -> [stmts[j] EXCEPT !.body = NoLines(@)]
       [] OTHER -> stmts[j]]

RECURSIVE RowLines(_)
RowLines(stmts) ==
  IF stmts = <<>> THEN <<>>
  ELSE LET s == stmts[1]
           here == CASE s.k = "row" -> <<s.line>>
                     [] s.k \in {"loop", "while"} -> RowLines(s.body)
                     [] OTHER -> <<>>
       IN  here \o RowLines(Tail(stmts))

\* layout-insensitive view of a token stream: kinds, identifier texts, literal VALUES; runs of line breaks
\* collapsed, leading ones dropped
NormItem(t) ==
  IF t.k \in IntKinds THEN [k |-> "Int", v |-> LitValue(t.k, t.cs)]
  ELSE IF t.k \in {"Ident", "SignalName"} THEN [k |-> t.k, v |-> [ok |-> TRUE, w |-> <<0, 0, 0, 0>>], txt |-> t.txt]
  ELSE [k |-> IF t.k = "HeaderEol" THEN "Eol" ELSE t.k, v |-> [ok |-> TRUE, w |-> <<0, 0, 0, 0>>]]
IsBreak(t) == t.k \in {"Eol", "HeaderEol"}
Normal(T) ==
  LET keep == {j \in DOMAIN T : ~(IsBreak(T[j]) /\ (j = 1 \/ IsBreak(T[j - 1])))}
      idx == SetToSortSeq(keep, <)
  IN  [n \in DOMAIN idx |-> NormItem(T[idx[n]])]

\* Layout groups (C20) are decided between the variants of one program, on what the crate itself returned, whatever
\* else is wrong with a variant: n = NoToks when the variant's tokens cannot be compared (the lexing already differs
\* from the specification's), then only the verdicts are compared.
NoToks == <<[k |-> "?"]>>
CrateAst(r) == IF r.res = "ok" THEN <<r.dump.signals, NoLines(r.dump.stmts), r.dump.virtuals>> ELSE <<>>
GroupStep(r, n, rl) ==
  IF r.group = 0 THEN UNCHANGED grp
  ELSE IF grp.id # r.group THEN grp' = [id |-> r.group, toks |-> n, ok |-> r.res = "ok", rl |-> rl, tl |-> r.row_lines, ast |-> CrateAst(r)]
  ELSE LET Delta(xs, ys) == [j \in DOMAIN xs |-> xs[j] - ys[j]]
       IN  /\ UNCHANGED grp
           /\ IF n # NoToks /\ grp.toks # NoToks /\ n # grp.toks THEN Flag(r, "layout.tokens")
              ELSE IF (r.res = "ok") # grp.ok THEN Flag(r, "layout.verdict")
              \* the program the crate built (literal VALUES, operators, names, declarations; row lines apart) is the same
              ELSE IF r.res = "ok" /\ CrateAst(r) # grp.ast THEN Flag(r, "layout.ast")
              \* `line` shifts by exactly the number of lines inserted above the row
              ELSE IF r.res = "ok" /\ r.has_truth /\ Len(rl) = Len(grp.rl) /\ Len(r.row_lines) = Len(grp.tl) /\ Len(rl) = Len(r.row_lines)
                      /\ Delta(rl, grp.rl) # Delta(r.row_lines, grp.tl) THEN Flag(r, "layout.lines")
              ELSE TRUE

Check0(r) ==
  \E lx \in {LexTest(r.cs)} :        \* bound through a singleton set: evaluated exactly once
  IF r.res = "panic" THEN Flag(r, "panic") /\ GroupStep(r, NoToks, <<>>)
  ELSE IF ~r.reparse_ok THEN Flag(r, "reparse") /\ GroupStep(r, NoToks, <<>>)
  ELSE IF lx.ok # r.lexed THEN Flag(r, "lex.tokens") /\ GroupStep(r, NoToks, <<>>)
  ELSE IF ~lx.ok THEN (IF r.res = "ok" THEN Flag(r, "accept.invalid") ELSE TRUE) /\ GroupStep(r, NoToks, <<>>)
  ELSE IF ~SameTokens(lx.toks, r.tokens) THEN Flag(r, "lex.tokens") /\ GroupStep(r, NoToks, <<>>)
  ELSE
    \E all \in {WithText(lx.toks, r)} :
    \E HT \in {SelectSeq(all, IsHeaderTok)} :
    \E T \in {SelectSeq(all, LAMBDA t : ~IsHeaderTok(t))} :
    \E endpos \in {all[Len(all)].e} :
    \E b \in {ParseTest(HT, T, endpos)} :
    \E a \in {IsTest(HT, T)} :
      /\ IF ~NoPanic(b) THEN Flag(r, "model.panic")
         ELSE IF ~SpansInRange(b, endpos) THEN Flag(r, "model.spans")
         ELSE IF r.res = "err" /\ ~(r.spans_ok /\ r.render_ok) THEN Flag(r, "spans")
         ELSE IF r.res = "ok" /\ ~a THEN Flag(r, "accept.invalid")
         ELSE IF r.res = "err" /\ a THEN Flag(r, IF r.has_ref THEN "display.fixpoint" ELSE "reject.valid")
         ELSE IF (r.res = "ok") # b.ok THEN Flag(r, "verdict")
         \* both reject: are the locations the same?  (a private detail: reported as err.spans, owned by no property)
         ELSE IF ~b.ok THEN (IF b.at # r.err_spans THEN Flag(r, "err.spans")
                             \* ... and the kind of error (equally private; err.kind, owned by no property)
                             ELSE IF "err_kind" \in DOMAIN r /\ r.err_kind # "" /\ r.err_kind # b.err THEN Flag(r, "err.kind")
                             ELSE TRUE)
         ELSE IF b.header # r.dump.signals THEN Flag(r, "ast.header")
         ELSE IF NoLines(b.stmts) # NoLines(r.dump.stmts) THEN Flag(r, "ast")
         ELSE IF b.stmts # r.dump.stmts THEN Flag(r, "ast.lines")
         ELSE IF b.virtuals # r.dump.virtuals THEN Flag(r, "ast.virtuals")
         ELSE IF b.expected_inputs # r.dump.expected_inputs \/ b.read_outputs # r.dump.read_outputs THEN Flag(r, "ast.facts")
         ELSE IF r.has_truth /\ RowLines(b.stmts) # r.row_lines THEN Flag(r, "lines.truth")
         \* print -> parse: the text is what Display printed for the statements r.ref_stmts
         ELSE IF r.has_ref /\ NoLines(b.stmts) # NoLines(r.ref_stmts) THEN Flag(r, "display.fixpoint")
         ELSE TRUE
      /\ GroupStep(r, Normal(all), IF r.res = "ok" THEN RowLines(r.dump.stmts) ELSE <<>>)

\* C10, on the log alone: whatever text the parser accepted (rightly or not), bound to a signal list made to fit it and
\* iterated against a driver that answers small numbers, must not have panicked (r.run_panic is the message, "" if none)
Check(r) ==
  /\ IF r.run_panic # "" THEN Flag(r, "run.panic") ELSE TRUE
  /\ Check0(r)

Step ==
  /\ l <= Len(Rec)
  /\ l' = l + 1
  /\ Check(Rec[l])

Spec == Init /\ [][Step]_vars

Accepted ==
  /\ PrintT(<<"LINES", Len(Rec)>>)
  /\ TLCGet("stats").diameter = Len(Rec) + 1
=============================================================================
