SPECIFICATION Spec
CONSTANTS
  MaxOps = 3
  FullUpTo = 2
  EmitReplay = FALSE
INVARIANTS ParseEquiv Spot PrintBehaviour
CHECK_DEADLOCK FALSE
