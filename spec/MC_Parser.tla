------------------------------ MODULE MC_Parser ------------------------------
(***************************************************************************)
(* Design-level check of the statement parser (C09, C12, C19): EVERY token *)
(* string up to MaxLen tokens over an alphabet of 24 token classes, after  *)
(* a one-column header.  Invariants:                                       *)
(*   NoPanicState   no state in which the code would panic is reachable    *)
(*                  (peek after Eof, index out of bounds, todo!/unreachable)*)
(*   SpansOk        every error location lies inside the text              *)
(*   AcceptSound    level B accepts  =>  the grammar (level A) accepts (C12)*)
(*   AcceptComplete the grammar accepts  =>  level B accepts               *)
(*   LinesOk        the line stored with each row = 1 + the number of line *)
(*                  breaks before the row's first token (C19)              *)
(* With CORPUS set, the same invariants are checked on every single-token  *)
(* edit (delete / replace / insert / truncate, each with and without a     *)
(* final line break) of every program of a corpus of valid tests, where    *)
(* blocks, declarations and long rows occur (MC_ParserCorpus.cfg).         *)
(* Every token string is printed with the verdict for the replay through   *)
(* the real parser.                                                        *)
(***************************************************************************)
EXTENDS Grammar, Json, IOUtils, TLC, FiniteSets, SequencesExt

CONSTANTS MaxLen, EmitReplay, UseCorpus, RowMode

Tok(k, txt, cps, src) == [k |-> k, s |-> 0, e |-> 0, txt |-> txt, cs |-> cps, src |-> src]
Alphabet ==
  { Tok("Let", "", <<>>, "let"), Tok("Ident", "a", <<>>, "a"), Tok("Equal", "", <<>>, "="),
    Tok("DecInt", "", <<49>>, "1"), Tok("Semi", "", <<>>, ";"), Tok("LParen", "", <<>>, "("),
    Tok("RParen", "", <<>>, ")"), Tok("Eol", "", <<>>, "\n"), Tok("Ident", "X", <<>>, "X"),
    Tok("Ident", "C", <<>>, "C"), Tok("Plus", "", <<>>, "+"), Tok("Minus", "", <<>>, "-"),
    Tok("Loop", "", <<>>, "loop"), Tok("While", "", <<>>, "while"), Tok("End", "", <<>>, "end"),
    Tok("Repeat", "", <<>>, "repeat"), Tok("Bits", "", <<>>, "bits"), Tok("Comma", "", <<>>, ","),
    Tok("Declare", "", <<>>, "declare"), Tok("ResetRandom", "", <<>>, "resetRandom"),
    Tok("Ident", "random", <<>>, "random"), Tok("Error", "", <<>>, "$"), Tok("Program", "", <<>>, "program"),
    Tok("DecInt", "", <<57,50,50,51,51,55,50,48,51,54,56,53,52,55,55,53,56,48,56>>, "9223372036854775808") }

\* edits use a smaller alphabet
EditAlphabet ==
  { Tok("Ident", "a", <<>>, "a"), Tok("DecInt", "", <<49>>, "1"), Tok("Semi", "", <<>>, ";"), Tok("RParen", "", <<>>, ")"),
    Tok("Eol", "", <<>>, "\n"), Tok("End", "", <<>>, "end"), Tok("Loop", "", <<>>, "loop"), Tok("While", "", <<>>, "while"),
    Tok("Comma", "", <<>>, ","), Tok("Ident", "X", <<>>, "X") }

Corpus == IF UseCorpus THEN ndJsonDeserialize(IOEnv.CORPUS) ELSE <<>>

\* synthetic spans: token j covers bytes 2j .. 2j+1; Eof sits at the end
Place(T) == [j \in DOMAIN T |-> [T[j] EXCEPT !.s = 2 * j, !.e = 2 * j + 1]]
WithEof(T) == Place(T) \o <<[k |-> "Eof", s |-> 2 * (Len(T) + 1), e |-> 2 * (Len(T) + 1), txt |-> "", cs |-> <<>>, src |-> ""]>>
EndPos(T) == 2 * (Len(T) + 1)

VARIABLES T,      \* the body tokens (without Eof)
          HT,     \* the header tokens
          tag     \* what produced T (for the replay)
vars == <<T, HT, tag>>

Header1 == << [k |-> "SignalName", s |-> 0, e |-> 1, txt |-> "A", cs |-> <<>>, src |-> "A"],
              [k |-> "HeaderEol", s |-> 1, e |-> 2, txt |-> "", cs |-> <<>>, src |-> "\n"] >>

InitFree == T = <<>> /\ HT = Header1 /\ tag = "free"
NextFree == /\ tag = "free" /\ Len(T) < MaxLen
            /\ \E t \in Alphabet : T' = Append(T, t)
            /\ UNCHANGED <<HT, tag>>

\* row mode: every data row of up to MaxLen entries under a two-column header, the entries being whole
\* entry forms (a bits(...) entry is six tokens) -- reaches what the token-by-token enumeration cannot
IntTok(txt, cps) == Tok("DecInt", "", cps, txt)
BitsEntry(txt, cps) == << Tok("Bits", "", <<>>, "bits"), Tok("LParen", "", <<>>, "("), IntTok(txt, cps), Tok("Comma", "", <<>>, ","),
                         IntTok("1", <<49>>), Tok("RParen", "", <<>>, ")") >>
EntryForms ==
  { <<IntTok("1", <<49>>)>>, <<Tok("Ident", "X", <<>>, "X")>>, <<Tok("Ident", "C", <<>>, "C")>>, <<Tok("Ident", "Z", <<>>, "Z")>>,
    <<Tok("LParen", "", <<>>, "("), Tok("Ident", "a", <<>>, "a"), Tok("RParen", "", <<>>, ")")>>,
    BitsEntry("2", <<50>>), BitsEntry("1", <<49>>), BitsEntry("0", <<48>>), BitsEntry("64", <<54, 52>>), BitsEntry("65", <<54, 53>>),
    BitsEntry("256", <<50, 53, 54>>), BitsEntry("257", <<50, 53, 55>>), BitsEntry("258", <<50, 53, 56>>),
    <<Tok("Eol", "", <<>>, "\n")>> }
Header2 == << [k |-> "SignalName", s |-> 0, e |-> 1, txt |-> "A", cs |-> <<>>, src |-> "A"],
              [k |-> "SignalName", s |-> 2, e |-> 3, txt |-> "B", cs |-> <<>>, src |-> "B"],
              [k |-> "HeaderEol", s |-> 3, e |-> 4, txt |-> "", cs |-> <<>>, src |-> "\n"] >>
InitRows == T = <<>> /\ HT = Header2 /\ tag = "r"
\* tag counts the entries: "r", "rr", ...
TagDepth(t) == CASE t = "r" -> 0 [] t = "rr" -> 1 [] t = "rrr" -> 2 [] t = "rrrr" -> 3 [] OTHER -> 99
NextRows == /\ RowMode /\ TagDepth(tag) < MaxLen
            /\ \E en \in EntryForms : T' = T \o en
            /\ tag' = (CASE tag = "r" -> "rr" [] tag = "rr" -> "rrr" [] tag = "rrr" -> "rrrr" [] tag = "rrrr" -> "rrrrr")
            /\ UNCHANGED HT

\* corpus mode: the initial states are the corpus programs; each has its single-token edits as successors
InitCorpus == \E p \in DOMAIN Corpus : T = Corpus[p].toks /\ HT = Corpus[p].htoks /\ tag = "corpus"
Without(S, j) == SubSeq(S, 1, j - 1) \o SubSeq(S, j + 1, Len(S))
Edits(S) ==
  {Without(S, j) : j \in DOMAIN S}
  \cup {[S EXCEPT ![j] = t] : j \in DOMAIN S, t \in EditAlphabet}
  \cup {SubSeq(S, 1, j) \o <<t>> \o SubSeq(S, j + 1, Len(S)) : j \in 0..Len(S), t \in EditAlphabet}
  \cup {SubSeq(S, 1, j) : j \in 0..Len(S)}
  \cup {Append(SubSeq(S, 1, j), Tok("Eol", "", <<>>, "\n")) : j \in 0..Len(S)}
NextCorpus == /\ tag = "corpus"
              /\ \E S \in Edits(T) : T' = S
              /\ tag' = "edit"
              /\ UNCHANGED HT

Init == IF UseCorpus THEN InitCorpus ELSE IF RowMode THEN InitRows ELSE InitFree
Next == NextFree \/ NextCorpus \/ NextRows
Spec == Init /\ [][Next]_vars

-----------------------------------------------------------------------------
B == ParseTest(HT, WithEof(T), EndPos(T))
A == IsTest(HT, WithEof(T))

NoPanicState == NoPanic(B)
SpansOk == SpansInRange(B, EndPos(T))
AcceptSound == B.ok => A
AcceptComplete == A => B.ok
\* a valid corpus program is accepted (guards the corpus itself)
CorpusValid == tag = "corpus" => (A /\ B.ok)

\* C19: line of a row = (lines of the header part) + 1 + line breaks before the row's first token.  The rows are
\* found independently of the parser: a row starts at a token that begins a line (or follows `repeat ( ... )`).
RECURSIVE RowLinesOf(_)
RowLinesOf(stmts) ==
  IF stmts = <<>> THEN <<>>
  ELSE LET s == stmts[1]
           here == CASE s.k = "row" -> <<s.line>>
                     [] s.k \in {"loop", "while"} -> RowLinesOf(s.body)
                     [] OTHER -> <<>>
       IN  here \o RowLinesOf(Tail(stmts))
HeaderLines == Cardinality({j \in DOMAIN HT : HT[j].k = "HeaderEol"})
LineOfTok(j) == HeaderLines + 1 + Cardinality({i \in 1..(j - 1) : T[i].k = "Eol"})
\* first tokens of the lines that the grammar classifies as rows (or repeat rows), in order
RowStarts ==
  LET lineStart(j) == j = 1 \/ T[j - 1].k = "Eol"
      lineEnd(j) == LET later == {i \in j..Len(T) : T[i].k = "Eol"} IN IF later = {} THEN Len(T) ELSE Min(later) - 1
      isRowLine(j) == T[j].k \in RowStartKinds \cup {"Repeat"}
  IN  SetToSortSeq({j \in DOMAIN T : T[j].k # "Eol" /\ lineStart(j) /\ isRowLine(j)}, <)
LinesOk ==
  B.ok => RowLinesOf(B.stmts) = [n \in DOMAIN RowStarts |-> LineOfTok(RowStarts[n])]

PrintBehaviour ==
  (EmitReplay /\ (tag # "corpus")) =>
     PrintT(<<"REPLAY", ToJson([h |-> [j \in DOMAIN HT |-> HT[j].src], t |-> [j \in DOMAIN T |-> T[j].src],
                                 ok |-> B.ok, valid |-> A,
                                 lines |-> IF B.ok THEN RowLinesOf(B.stmts) ELSE <<>>])>>)
=============================================================================
