SPECIFICATION Spec
CONSTANTS
  MaxLen = 3
  EmitReplay = FALSE
INVARIANTS ScanOk Tiling LayoutInvariant RadixInvariant PrintBehaviour
CHECK_DEADLOCK FALSE
