---------------------------- MODULE MC_FramedMap ----------------------------
(***************************************************************************)
(* The laws of the variable store that C01 (scoping) and C18 (vars())      *)
(* rely on, checked on EVERY store reachable by up to MaxOps operations    *)
(* (set of 3 names x 2 values, push, pop) from the empty one:              *)
(*   GetAfterSet     after set(k,v), get(k) = v and every other name is    *)
(*                   unchanged                                             *)
(*   SetIsLocal      set never changes what an enclosing frame holds: after*)
(*                   the matching pop every name reads as before the push  *)
(*   FlattenIsGet    flatten() lists exactly the names get() finds, each   *)
(*                   with the value get() returns (innermost wins)         *)
(*   PopOnEmpty      pop without a frame empties the store (as the code's  *)
(*                   unwrap_or(0) does)                                    *)
(***************************************************************************)
EXTENDS FramedMap, FiniteSets, TLC

CONSTANTS MaxOps, EmitReplay
Keys == {"a", "b", "c"}
Vals == {1, 2}

VARIABLES m, saved, n
\* saved: stack of snapshots [k \in Keys |-> get(k)] taken at each push
vars == <<m, saved, n>>
View(x) == [k \in Keys |-> FM_Get(x, k)]

Init == m = FM_New /\ saved = <<>> /\ n = 0
Set == \E k \in Keys, v \in Vals : m' = FM_Set(m, k, v) /\ UNCHANGED saved
Push == m' = FM_Push(m) /\ saved' = Append(saved, View(m))
Pop == m' = FM_Pop(m) /\ saved' = IF saved = <<>> THEN <<>> ELSE SubSeq(saved, 1, Len(saved) - 1)
Next == n < MaxOps /\ n' = n + 1 /\ (Set \/ Push \/ Pop)
Spec == Init /\ [][Next]_vars

GetAfterSet ==
  \A k \in Keys, v \in Vals :
     LET m2 == FM_Set(m, k, v)
     IN  /\ FM_Get(m2, k) = [found |-> TRUE, v |-> v]
         /\ \A j \in Keys \ {k} : FM_Get(m2, j) = FM_Get(m, j)
         /\ FM_Depth(m2) = FM_Depth(m)

\* popping restores exactly the view at the matching push
SetIsLocal == (saved # <<>> /\ FM_Depth(m) = Len(saved)) => View(FM_Pop(m)) = saved[Len(saved)]

FlattenIsGet ==
  FM_Flatten(m) = {<<k, FM_Get(m, k).v>> : k \in {k \in Keys : FM_Get(m, k).found}}

PopOnEmpty == FM_Depth(m) = 0 => FM_Pop(m).vals = <<>>
DepthTracks == FM_Depth(m) <= Len(saved)
=============================================================================
