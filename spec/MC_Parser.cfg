SPECIFICATION Spec
CONSTANTS
  MaxLen = 3
  EmitReplay = FALSE
  RowMode = FALSE
  UseCorpus = FALSE
INVARIANTS NoPanicState SpansOk AcceptSound AcceptComplete LinesOk PrintBehaviour
CHECK_DEADLOCK FALSE
