------------------------------ MODULE MC_Lexer ------------------------------
(***************************************************************************)
(* Design-level check of the token definitions (C20, C09 at character      *)
(* level): EVERY string up to MaxLen characters over an alphabet that      *)
(* exercises keywords and their prefixes, the four literal syntaxes,       *)
(* one- and two-character operators, blanks, comments, line breaks,        *)
(* illegal and multi-byte characters.                                      *)
(*   ScanAgrees       the scanner (dispatch on the first character) picks  *)
(*                    the declarative longest-match / priority token       *)
(*   Tiling           tokens are in order, inside the text, on character   *)
(*                    boundaries, and end with Eof at the end of the text  *)
(*   LayoutInvariant  changing the amount of blank space, appending a      *)
(*                    comment to every line, inserting blank lines leaves  *)
(*                    the token sequence unchanged (C20)                   *)
(*   RadixInvariant   the four spellings of a number denote one value      *)
(* Every string is printed with its tokens for the replay through the      *)
(* crate's own lexer (verif-hooks token dump).                             *)
(***************************************************************************)
EXTENDS Lexer, Json, TLC, FiniteSets

CONSTANTS MaxLen, EmitReplay

\* l e t 0 x 1 9 f < = ! ( _ space tab CR LF # é $ b 7 U+FEFF (three bytes, shares its lead byte with the full-width digits)
Alphabet == {108, 101, 116, 48, 120, 49, 57, 102, 60, 61, 33, 40, 95, 32, 9, 13, 10, 35, 233, 36, 98, 55, 65279}

\* strings grow by one character per step, so that TLC's workers share the enumeration
VARIABLE cs
Init == cs = <<>>
Next == Len(cs) < MaxLen /\ \E c \in Alphabet : cs' = Append(cs, c)
Spec == Init /\ [][Next]_cs

Toks == Lex(cs)
Kinds(T) == [j \in DOMAIN T |-> T[j].k]
TotalBytes(s) == LET RECURSIVE B(_) B(i) == IF i > Len(s) THEN 0 ELSE Utf8Len(s[i]) + B(i + 1) IN B(1)

ScanOk == ScanAgrees(cs)

Tiling ==
  LET T == Toks
  IN  /\ T[Len(T)].k = "Eof" /\ T[Len(T)].s = TotalBytes(cs) /\ T[Len(T)].e = TotalBytes(cs)
      /\ \A j \in 1..(Len(T) - 1) : T[j].k # "Eof" /\ T[j].s < T[j].e /\ T[j].e <= T[j + 1].s
      /\ T[1].s >= 0

\* layout rewritings as operators on strings
Rewrite(mode, c) ==
  CASE mode = "widen" -> IF c \in {32, 9, 13} THEN <<c, 9, 32>> ELSE <<c>>
    [] mode = "comment" -> IF c = 10 THEN <<35, 108, 33, 10>> ELSE <<c>>
    [] mode = "blank" -> IF c = 10 THEN <<10, 32, 10>> ELSE <<c>>
RECURSIVE MapCat(_, _, _)
MapCat(s, i, mode) == IF i > Len(s) THEN <<>> ELSE Rewrite(mode, s[i]) \o MapCat(s, i + 1, mode)

WidenBlanks(s) == MapCat(s, 1, "widen")
CommentLines(s) == MapCat(s, 1, "comment") \o <<32, 35, 36>>
BlankLines(s) == MapCat(s, 1, "blank")

\* kinds with runs of line breaks collapsed (a blank line adds line breaks only)
RECURSIVE Collapse(_)
Collapse(k) == IF Len(k) <= 1 THEN k
               ELSE IF k[1] = "Eol" /\ k[2] = "Eol" THEN Collapse(Tail(k))
               ELSE <<k[1]>> \o Collapse(Tail(k))

\* the text of the non-blank, non-comment part is unchanged by the rewritings, so equal kinds in order
\* means equal tokens
LayoutInvariant ==
  LET k == Kinds(Toks)
      inComment == \E j \in DOMAIN cs : cs[j] = 35       \* a comment swallows blanks: widening inside it is moot
  IN  /\ Kinds(Lex(WidenBlanks(cs))) = k
      /\ (~inComment => Kinds(Lex(CommentLines(cs))) = k)
      /\ Collapse(Kinds(Lex(BlankLines(cs)))) = Collapse(k)

\* radix: value of the literal tokens present; and the fixed equalities
RadixInvariant ==
  /\ \A j \in DOMAIN Toks : Toks[j].k \in {"DecInt", "HexInt", "BinInt", "OctInt"} =>
        LitValue(Toks[j].k, SubSeq(cs, Toks[j].i, Toks[j].i + Toks[j].n - 1)).ok
  /\ LitValue("DecInt", <<50, 53, 53>>).w = <<0, 0, 0, 255>>
  /\ LitValue("HexInt", <<48, 120, 102, 70>>).w = <<0, 0, 0, 255>>
  /\ LitValue("HexInt", <<48, 88, 70, 102>>).w = <<0, 0, 0, 255>>
  /\ LitValue("BinInt", <<48, 98, 49, 49, 49, 49, 49, 49, 49, 49>>).w = <<0, 0, 0, 255>>
  /\ LitValue("BinInt", <<48, 66, 49, 49, 49, 49, 49, 49, 49, 49>>).w = <<0, 0, 0, 255>>
  /\ LitValue("OctInt", <<48, 51, 55, 55>>).w = <<0, 0, 0, 255>>
  /\ LitValue("OctInt", <<48>>).w = <<0, 0, 0, 0>>
  \* 2^63 - 1 is the largest literal
  /\ LitValue("DecInt", <<57,50,50,51,51,55,50,48,51,54,56,53,52,55,55,53,56,48,55>>).w = <<32767, 65535, 65535, 65535>>
  /\ ~LitValue("DecInt", <<57,50,50,51,51,55,50,48,51,54,56,53,52,55,55,53,56,48,56>>).ok
  /\ ~LitValue("HexInt", <<48,120,56,48,48,48,48,48,48,48,48,48,48,48,48,48,48,48>>).ok
  /\ LitValue("HexInt", <<48,120,55,102,102,102,102,102,102,102,102,102,102,102,102,102,102,102>>).w = <<32767, 65535, 65535, 65535>>

PrintBehaviour ==
  EmitReplay => PrintT(<<"REPLAY", ToJson([cs |-> cs, toks |-> [j \in DOMAIN Toks |-> <<Toks[j].k, Toks[j].s, Toks[j].e>>]])>>)
=============================================================================
