SPECIFICATION Spec
CONSTANTS
  MaxOps = 6
  EmitReplay = FALSE
INVARIANTS GetAfterSet SetIsLocal FlattenIsGet PopOnEmpty DepthTracks
CHECK_DEADLOCK FALSE
