#!/usr/bin/env python3
"""Generates the literal-token table of spec/Lexer.tla (code points of every fixed token) -- authoring aid."""
toks = [(",","Comma"),(";","Semi"),("+","Plus"),("-","Minus"),("*","Times"),("/","Divide"),("%","Reminder"),("!","LogicalNot"),("~","BinaryNot"),
 ("^","Xor"),("&","And"),("|","Or"),("<<","ShiftLeft"),(">>","ShiftRight"),("=","Equal"),("!=","NotEqual"),("<=","LessThanOrEqual"),
 (">=","GreaterThanOrEqual"),("<","LessThan"),(">","GreaterThan"),("(","LParen"),(")","RParen"),("end","End"),("loop","Loop"),("repeat","Repeat"),
 ("bits","Bits"),("let","Let"),("resetRandom","ResetRandom"),("while","While"),("declare","Declare"),("program","Program"),("init","Init"),
 ("memory","Memory"),("def","Def"),("call","Call")]
print("Literals ==\n  << " + ",\n     ".join('[k |-> "%s", cs |-> <<%s>>]' % (k, ", ".join(str(ord(c)) for c in t)) for t,k in toks) + " >>")
M=(1<<63)-1
for r in (2,8,10,16):
    q,m=divmod(M,r)
    def limbs(x): return "<<%d, %d, %d, %d>>"%((x>>48)&0xFFFF,(x>>32)&0xFFFF,(x>>16)&0xFFFF,x&0xFFFF)
    print(f"\\* radix {r}: (2^63-1) div {r} = {limbs(q)}, mod = {m}")
