"""bin/check replay <file>: re-executes one recorded violation against /repo's current working tree.
Exit 1 (and a VIOLATION line) if it still reproduces, 0 if it does not."""
import importlib.machinery
import importlib.util
import json
import os
import shutil
import sys

ROOT = os.path.dirname(os.path.dirname(os.path.abspath(__file__)))


def load_check():
    loader = importlib.machinery.SourceFileLoader("check_main", os.path.join(ROOT, "bin", "check"))
    spec = importlib.util.spec_from_loader("check_main", loader)
    mod = importlib.util.module_from_spec(spec)
    loader.exec_module(mod)
    return mod


def main(path):
    ck = load_check()
    v = json.load(open(path))
    prop = v["property"]
    r = v.get("replay", {})
    how = r.get("how")
    work = os.path.join(ck.WORK, f"replay-{os.getpid()}")
    os.makedirs(work, exist_ok=True)
    again = False
    try:
        ck.build_harness()
        if how == "trace":
            begin = r.get("begin", {})
            run = begin.get("run")
            out = os.path.join(work, "one.ndjson")
            p = ck.sh([ck.BIN, "tracegen", "--prop", r["workload"], "--seed", str(v["seed"]), "--runs", str(run), "--only", str(run), "--out", out],
                      timeout=600, check=False)
            if p.returncode == 3:
                again = True
            else:
                diags, _, _ = ck.validate_trace(r.get("trace_module", "Trace_Interp"), out, work)
                owned = ck.OWNS.get(prop, ck.GENERIC)
                print("diagnostics now:", [(d["run"], d["code"]) for d in diags])
                again = any(d["code"] in owned or d["code"] == r.get("code") for d in diags)
        elif how == "parse":
            tf = os.path.join(work, "text.txt")
            open(tf, "w").write(r.get("text", ""))
            out = os.path.join(work, "one.ndjson")
            ck.sh([ck.BIN, "parse-one", "--prop", prop, "--text-file", tf, "--out", out], timeout=300)
            o, _, _, ok = ck.tlc("Trace_Parser", "Trace_Parser.cfg", work, env={"TRACE": out}, timeout=600, xmx="3g", deque=True)
            codes = [ck.parse_tla_tuple(b)[2] for b in ck.tla_lines(o, "DIAG")]
            print("diagnostics now:", codes)
            again = r.get("code") in codes
        elif how == "replay":
            beh = os.path.join(work, "one.beh")
            open(beh, "w").write(r["behaviour"] + "\n")
            kind = {"MC_Lexer": "lex", "MC_Parser": "parse", "MC_Values": "verdict", "MC_Dig": "dig", "MC_Sched": "sched"}.get(r.get("module"), "interp")
            res = beh + ".res"
            p = ck.sh([ck.BIN, "replay", "--kind", kind, "--in", beh, "--out", res, "--seed", str(v["seed"])], timeout=600, check=False)
            if p.returncode == 3:
                again = True
            else:
                mm = json.load(open(res))["mismatches"]
                print("mismatches now:", [m["code"] for m in mm])
                again = any(m["code"] == r.get("code") for m in mm) or (mm and r.get("code") is None)
        elif how == "model" and r["module"].startswith("AP_"):
            import subprocess
            for m in ("Word64Core", "AP_Word64", "AP_Word64At", "AP_N"):
                shutil.copy(os.path.join(ck.SPEC, m + ".tla"), work)
            if r.get("N") is not None:
                import re
                src = open(os.path.join(work, "AP_N.tla")).read()
                open(os.path.join(work, "AP_N.tla"), "w").write(re.sub(r"^N == \d+$", f"N == {r['N']}", src, flags=re.M))
            p = subprocess.run(["apalache-mc", "check", "--length=0", f"--inv={r['invariant']}", f"--out-dir={work}/ap", r["module"] + ".tla"],
                               cwd=work, stdout=subprocess.PIPE, stderr=subprocess.STDOUT, text=True, timeout=5000)
            again = "The outcome is: NoError" not in p.stdout
        elif how == "model":
            cfg = ck.write_cfg(work, r["module"], constants=dict(r["constants"], EmitReplay="FALSE"), invariants=[r["invariant"]])
            o, _, _, ok = ck.tlc(r["module"], cfg, work, workers=8, timeout=3000)
            again = "is violated" in o
        else:
            print("unknown replay kind", how)
            return 2
    finally:
        shutil.rmtree(work, ignore_errors=True)
    if again:
        print(f"VIOLATION property={prop} replay={path}")
        return 1
    print(f"not reproduced: property={prop} {v.get('fingerprint')}")
    return 0
