#!/usr/bin/env python3
"""Write NDJSON test vectors for spec/MC_Word64.tla, computed with Python's big integers."""
import json, random, sys

M = 1 << 64
def limbs(x):
    x %= M
    return [(x >> 48) & 0xFFFF, (x >> 32) & 0xFFFF, (x >> 16) & 0xFFFF, x & 0xFFFF]
def sgn(x):
    x %= M
    return x - M if x >= (1 << 63) else x
def tdiv(a, b):
    q = abs(a) // abs(b)
    return -q if (a < 0) != (b < 0) else q
def trem(a, b):
    r = abs(a) % abs(b)
    return -r if a < 0 else r

def main(out, seed, n):
    rnd = random.Random(seed)
    B = [0, 1, 2, 3, 5, 7, 63, 64, 65, 255, 256, 65535, 65536, 65537, (1 << 31) - 1, 1 << 31, (1 << 32) - 1, 1 << 32,
         (1 << 48) + 12345, (1 << 62), (1 << 63) - 1, -(1 << 63), -(1 << 63) + 1, -1, -2, -3, -64, -65536, -(1 << 32), 0x0123456789ABCDEF, -0x0123456789ABCDEF, 0x7FFF0000FFFF8000]
    def pick():
        c = rnd.random()
        if c < 0.5: return rnd.choice(B)
        if c < 0.7: return sgn(rnd.getrandbits(64))
        if c < 0.8: return sgn(rnd.getrandbits(rnd.randint(1, 64)))
        if c < 0.9: return -sgn(rnd.getrandbits(rnd.randint(1, 63)))
        return rnd.choice(B) + rnd.randint(-2, 2)
    ops = ["add", "sub", "mul", "neg", "not", "and", "or", "xor", "shl", "shr", "div", "rem", "lt", "le", "trunc"]
    with open(out, "w") as f:
        def emit(op, a, b, nn, r):
            f.write(json.dumps({"op": op, "a": limbs(a), "b": limbs(b), "n": nn, "r": limbs(r)}) + "\n")
        # exhaustive boundary grid for the binary operators
        cases = []
        for op in ops:
            if op == "trunc":
                for a in B:
                    for bits in range(0, 66):
                        cases.append((op, a, 0, bits))
            elif op in ("neg", "not"):
                for a in B: cases.append((op, a, 0, 0))
            elif op in ("shl", "shr"):
                for a in B:
                    for c in list(range(0, 66)) + [-1, -63, -64, 127, 128, 1 << 32, (1 << 63) - 1, -(1 << 63)]:
                        cases.append((op, a, c, 0))
            else:
                for a in B:
                    for b in B:
                        cases.append((op, a, b, 0))
        for _ in range(n):
            op = rnd.choice(ops)
            cases.append((op, pick(), pick(), rnd.randint(0, 70)))
        count = 0
        for op, a, b, nn in cases:
            a = sgn(a); b = sgn(b)
            if op in ("div", "rem") and b == 0: continue
            if op == "add": r = a + b
            elif op == "sub": r = a - b
            elif op == "mul": r = a * b
            elif op == "neg": r = -a
            elif op == "not": r = ~a
            elif op == "and": r = a & b
            elif op == "or": r = a | b
            elif op == "xor": r = a ^ b
            elif op == "shl": r = a << (b & 63)
            elif op == "shr": r = a >> (b & 63)
            elif op == "div": r = tdiv(a, b)
            elif op == "rem": r = trem(a, b)
            elif op == "lt": r = int(a < b)
            elif op == "le": r = int(a <= b)
            elif op == "trunc": r = a if nn >= 64 else (a % M) & ((1 << nn) - 1)
            emit(op, a, b, nn, r); count += 1
    print(count)

if __name__ == "__main__":
    main(sys.argv[1], int(sys.argv[2]), int(sys.argv[3]))
